(* SubsampleProofs.v - theorems about the Subsample model (C11). *)
From Coq Require Import Reals Lra Lia List Arith Bool ZArith Sorted Permutation.
From Evo Require Import Num Linalg LinalgR Filters FiltersProofs Subsample.
Import ListNotations.
Local Open Scope R_scope.

(* ====================================================================================== *)
(* reduce_to_ids keeps order and keeps the per-pose arrays together                       *)
(* ====================================================================================== *)
Lemma select_ids_length {A} (d : A) l ids : length (select_ids d l ids) = length ids.
Proof. apply map_length. Qed.

Lemma select_ids_nth {A} (d : A) l ids k : (k < length ids)%nat ->
  nth k (select_ids d l ids) d = nth (nth k ids 0%nat) l d.
Proof.
  intros H. unfold select_ids. rewrite (nth_indep _ d (nth (nth 0%nat ids 0%nat) l d)) by now rewrite map_length.
  revert k H. induction ids as [|i r IH]; intros [|k] H; cbn in *; try lia; [reflexivity|].
  rewrite (nth_indep _ _ (nth (nth 0%nat r 0%nat) l d)) by (rewrite map_length; lia). apply IH. lia.
Qed.

(* stamp, position and orientation are picked by the same index list: the result of reducing the
   zipped trajectory is the zip of the reduced arrays *)
Lemma select_ids_combine {A B} (da : A) (db : B) la lb ids : length la = length lb ->
  select_ids (da, db) (combine la lb) ids = combine (select_ids da la ids) (select_ids db lb ids).
Proof.
  intros L. unfold select_ids. induction ids as [|i r IH]; cbn; [reflexivity|]. rewrite IH. f_equal.
  apply combine_nth. exact L.
Qed.

(* with increasing in-range ids the kept poses appear in their original relative order *)
Lemma select_ids_order {A} (d : A) l ids : StronglySorted lt ids -> Forall (fun i => (i < length l)%nat) ids ->
  forall k1 k2, (k1 < k2 < length ids)%nat ->
  exists i1 i2, (i1 < i2 < length l)%nat /\ nth k1 (select_ids d l ids) d = nth i1 l d /\
                nth k2 (select_ids d l ids) d = nth i2 l d.
Proof.
  intros S F k1 k2 H. exists (nth k1 ids 0%nat), (nth k2 ids 0%nat).
  rewrite !select_ids_nth by lia. split; [|split; reflexivity].
  assert (M : forall (l0 : list nat), StronglySorted lt l0 -> forall a b, (a < b < length l0)%nat ->
             (nth a l0 0 < nth b l0 0)%nat).
  { clear. induction 1 as [|x r S IH F]; intros a b H; [cbn in H; lia|].
    destruct b as [|b]; [lia|]. destruct a as [|a]; cbn [nth].
    - rewrite Forall_forall in F. apply F. apply nth_In. cbn in H. lia.
    - apply IH. cbn in H. lia. }
  split; [apply M; [exact S|exact H]|]. rewrite Forall_forall in F. apply F. apply nth_In. lia.
Qed.

(* ====================================================================================== *)
(* numpy.where                                                                            *)
(* ====================================================================================== *)
Lemma where_from_spec flags : forall a i,
  In i (where_from a flags) <-> (a <= i /\ i - a < length flags /\ nth (i - a) flags false = true)%nat.
Proof.
  induction flags as [|f r IH]; intros a i; cbn [where_from].
  - cbn. split; [tauto|]. intros (_ & H & _). lia.
  - destruct f; cbn [In]; rewrite IH; split.
    + intros [<-|(H1 & H2 & H3)].
      * rewrite Nat.sub_diag. cbn. repeat split; lia.
      * replace (i - a)%nat with (S (i - S a)) by lia. cbn. repeat split; try lia. exact H3.
    + intros (H1 & H2 & H3). destruct (Nat.eq_dec i a) as [->|Ne]; [now left|right].
      replace (i - a)%nat with (S (i - S a)) in * by lia. cbn in H2, H3. repeat split; try lia. exact H3.
    + intros (H1 & H2 & H3). replace (i - a)%nat with (S (i - S a)) by lia. cbn. repeat split; try lia. exact H3.
    + intros (H1 & H2 & H3). destruct (Nat.eq_dec i a) as [->|Ne].
      * rewrite Nat.sub_diag in H3. cbn in H3. discriminate.
      * replace (i - a)%nat with (S (i - S a)) in * by lia. cbn in H2, H3. repeat split; try lia. exact H3.
Qed.
Lemma where_from_sorted flags : forall a, StronglySorted lt (where_from a flags) /\ Forall (fun i => (a <= i)%nat) (where_from a flags).
Proof.
  induction flags as [|f r IH]; intros a; cbn [where_from]; [split; constructor|].
  destruct (IH (S a)) as [S1 F1].
  assert (F1' : Forall (fun i => (a <= i)%nat) (where_from (S a) r)) by (eapply Forall_impl; [|exact F1]; cbn; intros; lia).
  destruct f; [|split; assumption]. split; [|constructor; [lia|exact F1']].
  constructor; [exact S1|]. eapply Forall_impl; [|exact F1]. cbn. intros; lia.
Qed.
Lemma where_idx_spec flags i : In i (where_idx flags) <-> (i < length flags)%nat /\ nth i flags false = true.
Proof. unfold where_idx. rewrite where_from_spec, Nat.sub_0_r. split; intros; repeat split; try tauto; lia. Qed.
Lemma where_idx_sorted flags : StronglySorted lt (where_idx flags).
Proof. apply where_from_sorted. Qed.

Lemma nth_map_lt {A B} (f : A -> B) (l : list A) (da : A) (db : B) k : (k < length l)%nat ->
  nth k (map f l) db = f (nth k l da).
Proof. revert k. induction l as [|x r IH]; intros [|k] H; cbn in *; try lia; [reflexivity|apply IH; lia]. Qed.

(* ====================================================================================== *)
(* time cropping                                                                          *)
(* ====================================================================================== *)
Theorem crop_ids_spec (ts : list R) (start stop : option R) :
  match crop_ids ts start stop with
  | None => ts = [] \/ (match stop with Some x => x | None => last ts 0 end) < (match start with Some x => x | None => hd 0 ts end)
  | Some ids =>
      ts <> [] /\ StronglySorted lt ids /\
      forall i, In i ids <->
        (i < length ts)%nat /\
        (match start with Some x => x | None => hd 0 ts end) <= nth i ts 0 <= (match stop with Some x => x | None => last ts 0 end)
  end.
Proof.
  unfold crop_ids. destruct ts as [|t0 r]; [now left|].
  assert (Hl : forall d, last (t0 :: r) d = last (t0 :: r) 0).
  { intros d. generalize t0. induction r as [|x r' IH]; intros y; [reflexivity|]. apply (IH x). }
  set (s := match start with Some x => x | None => t0 end).
  rewrite (Hl t0). set (e := match stop with Some x => x | None => last (t0 :: r) 0 end).
  cbn [hd]. fold s. rnum. destruct (Rltb e s) eqn:L.
  - apply Rltb_true in L. now right.
  - apply Rltb_false in L. split; [discriminate|]. split; [apply where_idx_sorted|].
    intros i. rewrite where_idx_spec, map_length. split.
    + intros [Hi H]. split; [exact Hi|].
      rewrite (nth_map_lt _ _ 0) in H by exact Hi. apply andb_prop in H. destruct H as [H1 H2]. apply Rleb_true in H1, H2. lra.
    + intros [Hi H]. split; [exact Hi|].
      rewrite (nth_map_lt _ _ 0) by exact Hi. apply andb_true_intro. split; apply Rleb_true; lra.
Qed.

(* ====================================================================================== *)
(* splitting                                                                              *)
(* ====================================================================================== *)
Lemma skipn_plus {A} : forall m n (l : list A), skipn n (skipn m l) = skipn (m + n) l.
Proof. induction m as [|m IH]; intros n l; [reflexivity|]. destruct l; [now rewrite !skipn_nil|apply IH]. Qed.

Lemma slice_concat {A} (l : list A) : forall b a, StronglySorted le (a :: b) -> (last (a :: b) 0 <= length l)%nat ->
  concat (map (fun ab => slice l (fst ab) (snd ab)) (zip_next (a :: b))) = slice l a (last (a :: b) 0%nat).
Proof.
  induction b as [|c r IH]; intros a S L.
  - cbn. unfold slice. now rewrite Nat.sub_diag.
  - rewrite zip_next_cons. cbn [map concat fst snd]. inversion S as [|? ? S' F]; subst.
    rewrite IH; [|exact S'|exact L].
    change (last (a :: c :: r) 0%nat) with (last (c :: r) 0%nat).
    assert (Hac : (a <= c)%nat) by (rewrite Forall_forall in F; apply F; now left).
    assert (Hcl : (c <= last (c :: r) 0)%nat).
    { clear - S'. revert c S'. induction r as [|x r' IH]; intros c S'; [cbn; lia|].
      inversion S' as [|? ? S'' F]; subst. change (last (c :: x :: r') 0%nat) with (last (x :: r') 0%nat).
      rewrite Forall_forall in F. specialize (F x (or_introl eq_refl)). specialize (IH x S''). lia. }
    unfold slice. set (z := last (c :: r) 0%nat) in *.
    replace (z - a)%nat with ((c - a) + (z - c))%nat by lia. rewrite firstn_plus. f_equal.
    rewrite skipn_plus. f_equal. f_equal. lia.
Qed.

Lemma split_bounds_sorted flags n : (length flags < n)%nat ->
  StronglySorted lt (split_bounds flags n) /\ last (split_bounds flags n) 0%nat = n.
Proof.
  intros H. unfold split_bounds.
  assert (W := where_idx_sorted flags).
  assert (B : Forall (fun i => (i < length flags)%nat) (where_idx flags)).
  { rewrite Forall_forall. intros i Hi. apply where_idx_spec in Hi. tauto. }
  revert W B. generalize (where_idx flags) as g. intros g W B. split.
  - constructor.
    + induction W as [|x r S IH F]; cbn; [repeat constructor|]. inversion B as [|? ? Bx Br]; subst.
      constructor; [apply IH; exact Br|]. apply Forall_app. split.
      * rewrite Forall_forall in *. intros y Hy. apply in_map_iff in Hy. destruct Hy as (z & <- & Hz).
        specialize (F z Hz). lia.
      * constructor; [lia|constructor].
    + apply Forall_app. split; [|constructor; [lia|constructor]].
      rewrite Forall_forall. intros y Hy. apply in_map_iff in Hy. destruct Hy as (z & <- & _). lia.
  - change (0%nat :: map S g ++ [n]) with ((0%nat :: map S g) ++ [n]). apply last_last.
Qed.

Lemma slice_all {A} (l : list A) : slice l 0 (length l) = l.
Proof. unfold slice. rewrite Nat.sub_0_r. cbn. apply firstn_all. Qed.

Lemma sorted_lt_le l : StronglySorted lt l -> StronglySorted le l.
Proof.
  induction 1 as [|x r S IH F]; constructor; [exact IH|]. eapply Forall_impl; [|exact F]. cbn. intros; lia.
Qed.

(* concatenating the parts reproduces the trajectory *)
Theorem split_concat {A} (flags : list bool) (l : list A) : (length flags < length l \/ length l < 2)%nat ->
  concat (split_slices flags l) = l.
Proof.
  intros H. unfold split_slices. destruct (Nat.ltb_spec (length l) 2) as [L|L]; [cbn; apply app_nil_r|].
  destruct (where_idx flags) eqn:E; [cbn; apply app_nil_r|]. try rewrite <- E. clear E.
  assert (Hf : (length flags < length l)%nat) by lia.
  destruct (split_bounds_sorted flags (length l) Hf) as [Sb La].
  unfold split_bounds in *. rewrite slice_concat; [|apply sorted_lt_le; exact Sb|rewrite La; lia].
  rewrite La. apply slice_all.
Qed.

(* the parts are the slices between consecutive bounds; every interior bound is a flagged step,
   and no flagged step lies inside a part *)
Theorem split_parts_spec {A} (flags : list bool) (l : list A) : (length flags < length l)%nat -> (2 <= length l)%nat ->
  where_idx flags <> [] ->
  let b := split_bounds flags (length l) in
  split_slices flags l = map (fun ab => slice l (fst ab) (snd ab)) (zip_next b) /\
  hd 1%nat b = 0%nat /\ last b 0%nat = length l /\ StronglySorted lt b /\
  (forall c, In c b -> c = 0%nat \/ c = length l \/ nth (c - 1) flags false = true) /\
  (forall lo hi, In (lo, hi) (zip_next b) -> (lo < hi <= length l)%nat /\
      forall k, (lo <= k)%nat -> (S k < hi)%nat -> nth k flags false = false).
Proof.
  intros Hf H2 Hne. cbn zeta. destruct (split_bounds_sorted flags (length l) Hf) as [Sb La].
  split; [|split; [reflexivity|split; [exact La|split; [exact Sb|split]]]].
  - unfold split_slices. destruct (Nat.ltb_spec (length l) 2) as [L|L]; [lia|].
    destruct (where_idx flags) eqn:E; [congruence|]. try rewrite <- E. reflexivity.
  - intros c Hc. unfold split_bounds in Hc. destruct Hc as [<-|Hc]; [now left|].
    apply in_app_or in Hc. destruct Hc as [Hc|[<-|[]]]; [|right; now left].
    apply in_map_iff in Hc. destruct Hc as (k & <- & Hk). apply where_idx_spec in Hk. right. right.
    cbn. rewrite Nat.sub_0_r. tauto.
  - intros lo hi I. destruct (in_zip_next_sorted _ Sb lo hi I) as (Lt & Ilo & Ihi).
    assert (Hhi : (hi <= length l)%nat).
    { unfold split_bounds in Ihi. destruct Ihi as [<-|Ihi]; [lia|]. apply in_app_or in Ihi.
      destruct Ihi as [Ihi|[<-|[]]]; [|lia]. apply in_map_iff in Ihi. destruct Ihi as (k & <- & Hk).
      apply where_idx_spec in Hk. lia. }
    split; [lia|]. intros k Hk1 Hk2. destruct (nth k flags false) eqn:Fk; [exfalso|reflexivity].
    assert (Kf : (k < length flags)%nat).
    { destruct (Nat.lt_ge_cases k (length flags)) as [Q|Q]; [exact Q|]. rewrite nth_overflow in Fk by exact Q. discriminate. }
    assert (Ik : In (S k) (split_bounds flags (length l))).
    { unfold split_bounds. right. apply in_or_app. left. apply in_map. apply where_idx_spec. tauto. }
    (* S k is a bound strictly between the consecutive bounds lo and hi *)
    clear - Sb I Ik Hk1 Hk2. revert I Ik. revert Sb. generalize (split_bounds flags (length l)) as b0.
    induction 1 as [|x r Sr IH F]; intros I Ik; [destruct I|].
    rewrite zip_next_cons in I. destruct r as [|y r']; [destruct I|]. destruct I as [E|I].
    + injection E as <- <-. destruct Ik as [E|[E|Ik]]; try lia.
      inversion Sr as [|? ? _ Fy]; subst. rewrite Forall_forall in Fy. specialize (Fy _ Ik). lia.
    + destruct Ik as [E|Ik]; [|apply IH; assumption].
      subst x. destruct (in_zip_next_sorted _ Sr lo hi I) as (_ & Il & _).
      rewrite Forall_forall in F. specialize (F lo Il). lia.
Qed.

(* fewer than two poses or nothing flagged: the trajectory is returned whole *)
Theorem split_whole {A} (flags : list bool) (l : list A) :
  ((length l < 2)%nat \/ (forall k, (k < length flags)%nat -> nth k flags false = false)) -> split_slices flags l = [l].
Proof.
  intros H. unfold split_slices. destruct (Nat.ltb_spec (length l) 2) as [L|L]; [reflexivity|].
  destruct H as [H|H]; [lia|]. destruct (where_idx flags) as [|i r] eqn:E; [reflexivity|exfalso].
  assert (I : In i (where_idx flags)) by (rewrite E; now left). apply where_idx_spec in I.
  rewrite (H i) in I by tauto. destruct I; discriminate.
Qed.

(* the three criteria: which steps are flagged *)
Lemma diff_flags_spec (thr : R) : forall (l : list R),
  length (diff_flags thr l) = (length l - 1)%nat /\
  forall k, (S k < length l)%nat -> (nth k (diff_flags thr l) false = true <-> thr < nth (S k) l 0 - nth k l 0).
Proof.
  induction l as [|a r IH]; [split; [reflexivity|intros k H; cbn in H; lia]|].
  destruct r as [|b r']; [split; [reflexivity|intros k H; cbn in H; lia]|].
  change (diff_flags thr (a :: b :: r')) with ((nltb thr (nsub b a)) :: diff_flags thr (b :: r')).
  destruct IH as [IL IN]. split; [cbn [length] in *; rewrite IL; lia|].
  intros k Hk. destruct k as [|k].
  - cbn [nth]. rnum. apply Rltb_true.
  - cbn [nth]. apply (IN k). cbn [length] in *. lia.
Qed.

Theorem time_gap_flags_spec (dt : R) (ts : list R) :
  length (time_gap_flags dt ts) = (length ts - 1)%nat /\
  forall k, (S k < length ts)%nat -> (nth k (time_gap_flags dt ts) false = true <-> dt < nth (S k) ts 0 - nth k ts 0).
Proof. apply diff_flags_spec. Qed.

(* a distance gap is a step of the accumulated path length, i.e. the distance between the two poses *)
Theorem dist_gap_flags_spec (d0 : V3 R) (dist : R) (ps : list (V3 R)) : ps <> [] ->
  length (dist_gap_flags dist ps) = (length ps - 1)%nat /\
  forall k, (S k < length ps)%nat ->
    (nth k (dist_gap_flags dist ps) false = true <-> dist < norm (vsub (nth k ps d0) (nth (S k) ps d0))).
Proof.
  intros N. unfold dist_gap_flags. destruct (diff_flags_spec dist (acc_dists ps)) as [L H].
  destruct (acc_dists_spec ps N) as [AL AN]. rewrite AL in *. split; [exact L|].
  intros k Hk. rewrite (H k Hk). rewrite acc_dists_diff by lia.
  replace (S k - k)%nat with 1%nat by lia.
  assert (E : firstn 1 (skipn k (seg_norms ps)) = [nth k (seg_norms ps) 0]).
  { assert (Lk : (k < length (seg_norms ps))%nat) by (rewrite seg_norms_length; lia).
    revert Lk. generalize (seg_norms ps) as sn. intros sn. generalize k. clear.
    induction sn as [|x r IH]; intros k Lk; [cbn in Lk; lia|]. destruct k as [|k]; [reflexivity|].
    cbn [skipn nth]. apply IH. cbn in Lk. lia. }
  rewrite E. cbn [sumR]. rewrite Rplus_0_r. rewrite (seg_norms_nth d0) by exact Hk. reflexivity.
Qed.
