"""Rewrite the seeded-changes table of DESIGN.md (section 9.5) from seeded/*/meta.json (python -m harness.seed_table)."""
import glob
import json
import os
import re

VERIF = os.path.dirname(os.path.dirname(os.path.abspath(__file__)))


def row(d):
    m = json.load(open(os.path.join(d, "meta.json")))
    cr = m.get("check_result", {})
    viol = [l for l in (cr.get("lines") or []) if l.startswith("VIOLATION")]
    if any(not l.rstrip().endswith("no-failing-input-found") for l in viol):
        how = "VIOLATION with failing input"
    elif viol:
        how = "VIOLATION (no-failing-input-found)"
    else:
        how = "MISSED"
    out = "%s: %s" % (cr.get("check", m["property"]), how)
    if m.get("history"):
        out += " - " + m["history"]
    cut = lambda s, n: (s or "").replace("|", "/").replace("\n", " ")[:n]
    return "| %s | %s | %s | %s |" % (os.path.basename(d), cut(m.get("summary"), 160), cut(m.get("needs"), 140), out.replace("|", "/"))


def main():
    rows = [row(d) for d in sorted(glob.glob(os.path.join(VERIF, "seeded", "C*-*")))]
    table = "| seed | change | needs | outcome now (history) |\n|---|---|---|---|\n" + "\n".join(rows) + "\n"
    p = os.path.join(VERIF, "DESIGN.md")
    s = open(p).read()
    pat = re.compile(r"\| seed \| change \| needs \| outcome now \(history\) \|\n\|---\|---\|---\|---\|\n(?:\|.*\n)+")
    assert len(pat.findall(s)) == 1
    s = pat.sub(lambda _: table, s)
    open(p, "w").write(s)
    missed = [r.split("|")[1].strip() for r in rows if "MISSED" in r.split("|")[4][:30] or "no-failing-input-found" in r.split("|")[4][:60]]
    print(len(rows), "rows; weak or missed:", missed)


if __name__ == "__main__":
    main()
