"""C19 - the settings file stays loadable across crashes and concurrent starts.

Theorems: coq/properties/C19.v over the model Evo.SettingsFS.  Tie (H, traces): real evo processes are run
as subprocesses under a recording shim (harness/c19_child.py) with HOME in scratch directories; a scheduler
in this process decides which process performs its next file-system primitive, kills processes to inject
crashes, and records the directory after every step.  For every run Coq evaluates on the recorded trace:
the discipline checker `legal_run_b` (the hypothesis of C19_inv_settings), the model's file-system
semantics (state after every step = observed directory), and the model's programs under the same schedule
(event sequence = recorded sequence).  Independently of the model the property itself is judged on what was
observed (settings.json absent or complete after every step, no started process fails, every load has every
default key, a fresh unshimmed start on the resulting home succeeds).
"""
import concurrent.futures
import json
import os
import shutil
import signal
import subprocess
import sys
import tempfile

from harness import common
from harness.common import cbool, cnat

ID = "C19"
IMPORTS = "From Evo Require Import SettingsFS.\nUnset Printing Records.\n"
COQ_TARGETS = ["theories/SettingsFSProofs.vo"]
TRUSTED = ["model Evo.SettingsFS written by hand from evo/tools/settings.py and evo/main_config.py; tie = recorded "
           "file-system traces of the real code (every primitive, every intermediate directory state)",
           "the recording shim (harness/c19_child.py) over open/io.open/os.replace/os.rename/os.remove/os.mkdir/"
           "os.open/pathlib.Path.{mkdir,exists,unlink,rename,replace,touch}; a write primitive it does not know "
           "shows up as a directory state the model did not predict",
           "POSIX rename is atomic; a process is killed only between two primitives (plus inside a write split into "
           "chunks); real OS scheduling, disk loss after power failure are not exhibited",
           "temp files are private because their name carries os.getpid(): distinct live processes have distinct pids"]
ASSUMPTIONS = ["initial homes are those evo's own operations can leave behind (incl. crashes): settings.json implies "
               "assets_version; a current assets_version implies settings.json absent or with every default key",
               "threads of one process sharing a pid are out of scope (evo starts none)"]

CHILD = os.path.join(os.path.dirname(os.path.dirname(os.path.abspath(__file__))), "c19_child.py")
PY = sys.executable
OLD_VERSION = "v0.0.1"
ILLEGAL = "EUnlink (PUnknown 7)"


# ------------------------------------------------------------------ facts about the implementation
_FACTS = {}


def facts():
    if not _FACTS:
        import evo
        from evo.tools.settings_template import DEFAULT_SETTINGS_DICT
        _FACTS["version"] = evo.__version__
        _FACTS["defaults"] = dict(DEFAULT_SETTINGS_DICT)
        keys = sorted(DEFAULT_SETTINGS_DICT)
        old = {k: DEFAULT_SETTINGS_DICT[k] for k in keys[: len(keys) // 2]}
        old["plot_seaborn_style"] = "ticks"          # a user edit that an upgrade must keep
        _FACTS["old_settings"] = old
        # a more recent old release: only a few of today's keys are unknown to it
        few = {k: DEFAULT_SETTINGS_DICT[k] for k in keys if k not in keys[3::len(keys) // 4 or 1][:4]}
        few["plot_seaborn_style"] = "ticks"
        _FACTS["old_settings_few"] = few
        _FACTS["old_stamps"] = old_stamps(evo.__version__)
        _OLD_STAMPS.update(_FACTS["old_stamps"])
    return _FACTS


# Release tags of the usual form vMAJOR.MINOR.PATCH that a user may upgrade from.  What an upgrade has to do does not
# depend on which older tag is stored, so the tags are chosen to differ from the current one in every way a comparison
# of two tags can go: last / middle / first component smaller, fewer digits in a component (v1.9.0 is older than
# v1.31.1 although it sorts after it as text), more digits, text order agreeing and disagreeing with release order.
STAMP_CANDIDATES = ["v1.31.0", "v1.30.4", "v1.28.0", "v1.20.0", "v1.12.0", "v1.10.0", "v1.9.0", "v1.7.1", "v1.5.6",
                    "v1.4.0", "v1.3.9", "v1.2.4", "v1.0.0", "v0.9.9", "v0.12.3", "v0.40.0", "v2.0.0", "v9.9.9",
                    "v1.99.0", "v10.0.0"]
_OLD_STAMPS = {OLD_VERSION}


def _vtuple(tag):
    try:
        return tuple(int(x) for x in tag.lstrip("v").split("."))
    except ValueError:
        return None


def old_stamps(current):
    """candidates that denote an OLDER release than `current` (numeric order of the components), those that sort
    after `current` as plain text first"""
    cur = _vtuple(current)
    out = []
    for t in STAMP_CANDIDATES:
        if t == current or current.startswith(t) or (cur is not None and not _vtuple(t) < cur):
            continue
        out.append(t)
    return sorted(out, key=lambda t: (not t > current, STAMP_CANDIDATES.index(t)))


def classify(kind, text):
    """-> 'Absent' | 'Partial' | ('Present', ('C', all_keys, cur))"""
    if text is None:
        return "Absent"
    if kind == "ver":
        if text == facts()["version"]:
            return ("Present", ("C", False, True))
        if text in _OLD_STAMPS:      # a complete tag of an older release
            return ("Present", ("C", False, False))
        return "Partial"
    try:
        d = json.loads(text)
    except ValueError:
        return "Partial"
    if not isinstance(d, dict):
        return "Partial"
    return ("Present", ("C", all(k in d for k in facts()["defaults"]), False))


def coq_fstate(s):
    if isinstance(s, str):
        return s
    return "(Present (C %s %s))" % (cbool(s[1][1]), cbool(s[1][2]))


def coq_content(s):
    return "(C %s %s)" % (cbool(s[1][1]), cbool(s[1][2]))


# ------------------------------------------------------------------ scratch homes
HOMES = {
    # name: (dir, settings, version)
    "fresh": (False, None, None),
    "dir": (True, None, None),
    "ver_only": (True, None, "cur"),
    "ver_old_only": (True, None, "old"),
    "init": (True, "full", "cur"),
    "outdated": (True, "old", "old"),
    "outdated_full": (True, "full", "old"),
}


HOMES_AT = {
    # homes left behind by the older release named after the "@": "outdated@v1.9.0"
    "outdated": (True, "old", "old"),
    "outdated_few": (True, "few", "old"),
    "outdated_full": (True, "full", "old"),
    "ver_old_only": (True, None, "old"),
}


def home_spec(kind):
    """-> (dir, settings, version, stamp of the old release)"""
    if "@" in kind:
        base, stamp = kind.split("@", 1)
        if stamp == facts()["version"] or facts()["version"].startswith(stamp) or not stamp:
            raise common.HarnessError("C19: %r is not the tag of an older release" % stamp)
        _OLD_STAMPS.add(stamp)
        return HOMES_AT[base] + (stamp,)
    return HOMES[kind] + (OLD_VERSION,)


def make_home(kind):
    root = tempfile.mkdtemp(prefix="evo_c19_")
    home = os.path.join(root, "home")
    os.makedirs(home)
    d, s, v, stamp = home_spec(kind)
    evo_dir = os.path.join(home, ".evo")
    if d:
        os.mkdir(evo_dir)
    if s:
        doc = facts()[{"full": "defaults", "old": "old_settings", "few": "old_settings_few"}[s]]
        with open(os.path.join(evo_dir, "settings.json"), "w") as f:
            f.write(json.dumps(doc, indent=4, sort_keys=True))
    if v:
        with open(os.path.join(evo_dir, "assets_version"), "w") as f:
            f.write(facts()["version"] if v == "cur" else stamp)
    with open(os.path.join(home, "merge.json"), "w") as f:
        json.dump({"plot_seaborn_style": "darkgrid", "plot_linewidth": 3.0}, f)
    return root, home


def coq_home(kind):
    d, s, v, _ = home_spec(kind)
    st = {None: "Absent", "full": "(Present (C true false))", "old": "(Present (C false false))",
          "few": "(Present (C false false))"}[s]
    vt = {None: "Absent", "cur": "(Present (C false true))", "old": "(Present (C false false))"}[v]
    return "(update (fs_home %s %s %s) (PForeign 0) (Present (C false false)))" % (cbool(d), st, vt)


def read_text(p):
    try:
        with open(p, "rb") as f:
            return f.read().decode("utf-8", "replace")
    except OSError:
        return None


def observe(home, pids):
    """abstract directory state in the shape printed by Coq's `obs n`, plus unexpected files"""
    evo_dir = os.path.join(home, ".evo")
    d = os.path.isdir(evo_dir)
    st = classify("set", read_text(os.path.join(evo_dir, "settings.json")))
    vt = classify("ver", read_text(os.path.join(evo_dir, "assets_version")))
    tmps, known = [], {"settings.json", "assets_version", "evo.log"}
    for pid in pids:
        a, b = "settings.json.%d.tmp" % pid, "assets_version.%d.tmp" % pid
        known.update((a, b))
        tmps.append((classify("set", read_text(os.path.join(evo_dir, a))),
                     classify("ver", read_text(os.path.join(evo_dir, b)))))
    extra = sorted(set(os.listdir(evo_dir)) - known) if d else []
    return (d, (st, vt), tmps), extra


def jsonable_state(s):
    return json.loads(json.dumps(s))


# ------------------------------------------------------------------ processes under the scheduler
COMMANDS = {
    "start": ("CNone", ["start"]),
    "set": ("CSet", ["config", "set", "plot_seaborn_style", "whitegrid", "plot_linewidth", "2.5"]),
    "merge_hard": ("CSetMerge", ["config", "set", "-m", "@MERGE@"]),
    "merge_soft": ("CSetMerge", ["config", "set", "-m", "@MERGE@", "--soft"]),
    "reset_all": ("CResetAll", ["config", "reset", "-y"]),
    "reset_subset": ("CResetSubset", ["config", "reset", "plot_seaborn_style", "plot_linewidth"]),
}


class Child:
    def __init__(self, home, root, cmd, chunks, sched=True):
        self.home = home
        c_r, c_w = os.pipe()      # parent -> child
        e_r, e_w = os.pipe()      # child -> parent
        env = dict(os.environ)
        env.update({"HOME": home, "PYTHONPATH": common.REPO, "PYTHONDONTWRITEBYTECODE": "1", "MPLBACKEND": "Agg",
                    "PYTHONHASHSEED": "0"})
        env.pop("_ARGCOMPLETE", None)
        argv = [a.replace("@MERGE@", os.path.join(home, "merge.json")) for a in COMMANDS[cmd][1]]
        self.proc = subprocess.Popen([PY, "-W", "ignore", CHILD, str(c_r), str(e_w), "sched" if sched else "free",
                                      str(chunks)] + argv, pass_fds=(c_r, e_w), env=env, cwd=root,
                                     stdin=subprocess.DEVNULL, stdout=subprocess.DEVNULL, stderr=subprocess.PIPE)
        os.close(c_r)
        os.close(e_w)
        self.ctl = os.fdopen(c_w, "w")
        self.evt = os.fdopen(e_r, "r")
        self.pending = None       # the announced, not yet executed primitive
        self.ended = None         # end message
        self.killed = False
        self.loaded = None
        self.pid = None
        self._advance(first=True)

    def _read(self):
        line = self.evt.readline()
        if not line:
            return None
        return json.loads(line)

    def _advance(self, first=False):
        """read messages up to the next announced primitive or the end; returns the post message (if any)"""
        post = None
        while True:
            m = self._read()
            if m is None:
                if self.ended is None:
                    self.proc.wait()
                    err = self.proc.stderr.read().decode("utf-8", "replace")[-400:] if self.proc.stderr else ""
                    self.ended = {"ph": "end", "ok": False, "err": "process died: rc=%s %s" % (self.proc.returncode, err)}
                self.pending = None
                return post
            if m["ph"] == "hello":
                self.pid = m["pid"]
            elif m["ph"] == "post":
                post = m
            elif m["ph"] == "loaded":
                self.loaded = m
            elif m["ph"] == "pre":
                self.pending = m
                return post
            elif m["ph"] == "end":
                self.ended = m
                self.pending = None
                self.proc.wait()
                return post

    def step(self):
        """let the announced primitive happen; returns the completed event"""
        ev = dict(self.pending)
        self.ctl.write("go\n")
        self.ctl.flush()
        post = self._advance()
        if post:
            ev.update({k: v for k, v in post.items() if k != "ph"})
        return ev

    def kill(self):
        if self.proc.poll() is None:
            self.proc.send_signal(signal.SIGKILL)
        self.proc.wait()
        self.killed = True
        self.pending = None
        self.close()

    def close(self):
        for f in (self.ctl, self.evt, self.proc.stderr):
            try:
                if f:
                    f.close()
            except Exception:
                pass
        if self.proc.poll() is None:
            self.proc.kill()
            self.proc.wait()


PLAIN = ("import sys\nfrom evo.tools.settings import SETTINGS\n"
         "from evo.tools.settings_template import DEFAULT_SETTINGS_DICT\n"
         "missing=[k for k in DEFAULT_SETTINGS_DICT if k not in SETTINGS]\n"
         "sys.exit(4 if missing else 0)\n")


def plain_start(home):
    """a real, uninstrumented evo start on (a copy of) the home"""
    env = dict(os.environ)
    env.update({"HOME": home, "PYTHONPATH": common.REPO, "PYTHONDONTWRITEBYTECODE": "1"})
    p = subprocess.run([PY, "-W", "ignore", "-c", PLAIN], env=env, stdout=subprocess.DEVNULL, stderr=subprocess.PIPE,
                       timeout=120)
    return p.returncode, p.stderr.decode("utf-8", "replace")[-300:]


def execute(case):
    """run one case on the real code; returns the recorded trace, states and outcomes"""
    root, home = make_home(case["home"])
    kids = []
    try:
        for p in case["procs"]:
            kids.append(Child(home, root, p["cmd"], p.get("chunks", 0)))
        pids = [k.pid for k in kids]
        trace, states, extras = [], [], []
        s0, _ = observe(home, pids)
        for seg in case["plan"]:
            if seg[0] == "kill":
                kids[seg[1]].kill()
                continue
            i, n = seg
            k = kids[i]
            done = 0
            while k.pending is not None and not k.killed and (n < 0 or done < n):
                ev = k.step()
                ev["p"] = i
                trace.append(ev)
                st, extra = observe(home, pids)
                states.append(st)
                if extra:
                    extras.append([len(trace) - 1, extra])
                done += 1
                if len(trace) > 400:
                    raise common.HarnessError("C19: runaway process in case %r" % (case,))
        outcomes = []
        for k in kids:
            if k.killed:
                outcomes.append({"killed": True})
            elif k.ended is not None:
                outcomes.append({"killed": False, "ok": bool(k.ended.get("ok")), "err": k.ended.get("err"),
                                 "missing": (k.loaded or {}).get("missing")})
            else:
                outcomes.append({"killed": False, "unfinished": True})
        # a real, uninstrumented start on a copy of what is on disk now
        copy_root = tempfile.mkdtemp(prefix="evo_c19p_")
        try:
            chome = os.path.join(copy_root, "home")
            shutil.copytree(home, chome)
            rc, err = plain_start(chome)
            final_st, _ = observe(chome, pids)
        finally:
            shutil.rmtree(copy_root, ignore_errors=True)
        return {"pids": pids, "trace": [portable_event(e, home, root, pids) for e in trace],
                "state0": jsonable_state(s0), "states": jsonable_state(states), "extras": extras,
                "outcomes": outcomes, "plain_rc": rc, "plain_err": err, "plain_state": jsonable_state(final_st)}
    finally:
        for k in kids:
            k.close()
        shutil.rmtree(root, ignore_errors=True)


def portable_event(e, home, root, pids):
    """replace absolute paths / pids / texts by symbolic names (stable across runs)"""
    out = {"p": e["p"], "op": e["op"]}

    def sym(p):
        if p is None:
            return "?"
        evo_dir = os.path.join(home, ".evo")
        if p == evo_dir:
            return "dir"
        if p == os.path.join(evo_dir, "settings.json"):
            return "set"
        if p == os.path.join(evo_dir, "assets_version"):
            return "ver"
        for i, pid in enumerate(pids):
            if p == os.path.join(evo_dir, "settings.json.%d.tmp" % pid):
                return "tmp:%d:set" % i
            if p == os.path.join(evo_dir, "assets_version.%d.tmp" % pid):
                return "tmp:%d:ver" % i
        if p == os.path.join(home, "merge.json"):
            return "foreign:0"
        if p.startswith(evo_dir + os.sep):
            return "unknown:" + os.path.basename(p).replace(str(pids[e["p"]]), "<pid>")
        return "outside:" + os.path.basename(p)
    for k in ("path", "src", "dst"):
        if k in e:
            out[k] = sym(e[k])
    for k in ("exist_ok", "parents", "result", "mode", "error"):
        if k in e:
            out[k] = e[k]
    if "text" in e:
        pth = out.get("path", "")
        kind = "ver" if pth == "ver" or pth.endswith(":ver") else "set"
        out["content"] = jsonable_state(classify(kind, e["text"]))
    return out


# ------------------------------------------------------------------ Coq side
def coq_path(s):
    if s == "dir":
        return "PDir"
    if s == "set":
        return "(PShared TSet)"
    if s == "ver":
        return "(PShared TVer)"
    if s.startswith("tmp:"):
        _, i, t = s.split(":")
        return "(PTmp %s %s)" % (cnat(int(i)), "TSet" if t == "set" else "TVer")
    if s.startswith("foreign:"):
        return "(PForeign %s)" % cnat(int(s.split(":")[1]))
    return "(PUnknown 0%nat)"


def coq_event(e):
    op = e["op"]
    if e.get("error"):
        pass        # the primitive raised: the model's step fails too or the states differ
    if op == "exists":
        return "EExists %s %s" % (coq_path(e["path"]), cbool(e.get("result", False)))
    if op == "mkdir":
        return "EMkdir %s" % cbool(e.get("exist_ok", False)) if e["path"] == "dir" else ILLEGAL
    if op == "openw":
        return "EOpenW %s" % coq_path(e["path"]) if e.get("mode") in ("w", "wt", "wb") else ILLEGAL
    if op == "write":
        return "EWrite %s" % coq_path(e["path"])
    if op == "close":
        c = e.get("content")
        return "EClose %s %s" % (coq_path(e["path"]), coq_content(c)) if isinstance(c, (list, tuple)) else ILLEGAL
    if op == "rename":
        return "ERename %s %s" % (coq_path(e["src"]), coq_path(e["dst"]))
    if op == "read":
        c = e.get("content")
        return "ERead %s %s" % (coq_path(e["path"]), coq_content(c)) if isinstance(c, (list, tuple)) else ILLEGAL
    if op == "unlink":
        return "EUnlink %s" % coq_path(e["path"])
    return ILLEGAL


def expr(case, out):
    f0 = coq_home(case["home"])
    tr = "[" + "; ".join("(%s, %s)" % (cnat(e["p"]), coq_event(e)) for e in out["trace"]) + "]"
    progs = "[" + "; ".join("evo_prog %s %s" % (cnat(p.get("chunks", 0)), COMMANDS[p["cmd"]][0])
                            for p in case["procs"]) + "]"
    n = cnat(len(case["procs"]))
    return ("let f0 := %s in let tr := %s in "
            "(legal_run_b f0 tr, first_illegal f0 (fun _ => mon0) tr 0%%nat, map (obs %s) (states f0 tr), "
            "match sys_run f0 %s (map fst tr) with Some (_, _, t) => trace_eqb t tr | None => false end, "
            "obs %s f0)" % (f0, tr, n, progs, n))


def norm_state(s):
    """Coq value / JSON value -> comparable nested lists"""
    if isinstance(s, (list, tuple)):
        return [norm_state(x) for x in s]
    return s


def judge(case, val, out):
    legal, first_bad, mstates, model_trace_ok, mstate0 = val
    # ---- the property itself, on what was observed
    for k, st in enumerate(out["states"]):
        if st[1][0] == "Partial":
            return {"kind": "spec-violation", "failing_input": True,
                    "detail": "settings.json is neither absent nor a complete JSON document after step %d (%s)"
                              % (k, json.dumps(out["trace"][k]))}
    for i, o in enumerate(out["outcomes"]):
        if not o.get("killed") and o.get("ok") is False:
            return {"kind": "spec-violation", "failing_input": True,
                    "detail": "process %d failed although it was never killed: %s" % (i, o.get("err"))}
        if not o.get("killed") and o.get("missing"):
            return {"kind": "spec-violation", "failing_input": True,
                    "detail": "process %d loaded settings without the default keys %r" % (i, o["missing"][:5])}
    if out["plain_rc"] != 0:
        return {"kind": "spec-violation", "failing_input": True,
                "detail": "a fresh uninstrumented evo start on the resulting home failed (rc %s): %s"
                          % (out["plain_rc"], out["plain_err"])}
    # ---- the tie
    if out["extras"]:
        return {"kind": "model-vs-impl", "failing_input": False, "correspondence": "SettingsFS paths",
                "detail": "files in ~/.evo that the protocol does not know: %r" % (out["extras"][:3],)}
    if norm_state(mstate0) != norm_state(out["state0"]):
        raise common.HarnessError("C19: initial home differs from its Coq description: %r vs %r"
                                  % (mstate0, out["state0"]))
    if legal is not True:
        k = first_bad[1] if isinstance(first_bad, tuple) else first_bad
        return {"kind": "model-vs-impl", "failing_input": False, "correspondence": "SettingsFS.legal_run_b",
                "theorem": "C19_inv_settings (hypothesis legal_run_b)",
                "detail": "recorded step %s is not a legal step of the proved protocol: %s"
                          % (k, json.dumps(out["trace"][k]) if isinstance(k, int) and k < len(out["trace"]) else "?")}
    ms, os_ = norm_state(mstates), norm_state(out["states"])
    if ms != os_:
        k = next((i for i, (a, b) in enumerate(zip(ms, os_)) if a != b), min(len(ms), len(os_)))
        return {"kind": "model-vs-impl", "failing_input": False, "correspondence": "SettingsFS.fs_step",
                "detail": "directory after step %d differs from the model: model %r observed %r (event %s)"
                          % (k, ms[k] if k < len(ms) else None, os_[k] if k < len(os_) else None,
                             json.dumps(out["trace"][k]) if k < len(out["trace"]) else "?")}
    if model_trace_ok is not True:
        return {"kind": "model-vs-impl", "failing_input": False, "correspondence": "SettingsFS.evo_prog",
                "detail": "the model's programs under the recorded schedule do not produce the recorded events"}
    return None


# ------------------------------------------------------------------ case generation
def solo(home, cmd, chunks):
    return {"kind": "solo", "home": home, "procs": [{"cmd": cmd, "chunks": chunks}], "plan": [[0, -1]]}


def crash(home, cmd, chunks, k):
    return {"kind": "crash", "home": home, "procs": [{"cmd": cmd, "chunks": chunks}, {"cmd": "start", "chunks": 0}],
            "plan": [[0, k], ["kill", 0], [1, -1]]}


def race(home, cmds, chunks, cuts):
    """cuts = [a, b, c, ...]: process 0 runs a steps, process 1 b steps, process 0 c steps, ..., then all finish"""
    n = len(cmds)
    plan = [[j % n, c] for j, c in enumerate(cuts)] + [[i, -1] for i in range(n)]
    return {"kind": "race", "home": home, "procs": [{"cmd": c, "chunks": chunks} for c in cmds], "plan": plan}


def scenario_list(ctx):
    out = []
    for home in HOMES:
        for ch in (0, 2) if (ctx.quick and home not in ("fresh", "outdated")) else (0, 1, 2):
            out.append((home, "start", ch))
    for cmd in COMMANDS:
        if cmd == "start":
            continue
        for home in ("init", "outdated"):
            for ch in ((0,) if ctx.quick and home == "outdated" else (0, 2)):
                out.append((home, cmd, ch))
    return out


def upgrade_cases(ctx):
    """Version upgrades from homes left behind by older releases with realistic tags (the statement's "a version
    upgrade"; "any evo process that starts afterwards or concurrently loads its settings successfully and sees every
    default key"): every older tag of old_stamps() - among them tags that sort AFTER the current one as text - with a
    settings.json that lacks some of today's keys (half of them / four of them) or none: the upgrading start alone
    (followed by the plain start), every crash point of the upgrade followed by a fresh start, two racing starts,
    and evo_config commands whose start performs the upgrade."""
    stamps = facts()["old_stamps"]
    cur = facts()["version"]
    after = [t for t in stamps if t > cur]
    before = [t for t in stamps if not t > cur]
    bases = ["outdated", "outdated_few", "outdated", "outdated_few", "outdated_full", "ver_old_only"]
    out, solos = [], []
    for k, t in enumerate(stamps):
        base = bases[k % len(bases)] if ctx.quick else None
        for b in ([base] if base else ["outdated", "outdated_few", "outdated_full", "ver_old_only"]):
            solos.append(solo("%s@%s" % (b, t), "start", 0 if (ctx.quick or k % 2) else 1))
    run_all(solos)
    out += solos
    rng = ctx.rng
    picks = []
    if after:
        picks.append(("outdated_few@%s" % after[rng.randrange(len(after))]))
        picks.append(("outdated@%s" % after[rng.randrange(len(after))]))
    if before:
        picks.append(("outdated_few@%s" % before[rng.randrange(len(before))]))
    if not ctx.quick:
        picks = ["%s@%s" % (b, t) for t in stamps for b in ("outdated", "outdated_few")]
    for j, h in enumerate(picks):
        s0 = solo(h, "start", 0)
        run_all([s0])
        n = len(_CACHE[key(s0)]["trace"])
        out.append(s0)
        if ctx.quick and j == 1:
            # second pick of the quick tier: racing starts instead of crash points
            for a in range(0, n + 1, 4):
                for b in range(0, n + 2, 4):
                    out.append(race(h, ["start", "start"], 0, [a, b]))
            continue
        for k in range(0, n + 1):
            out.append(crash(h, "start", 0, k))
        if not ctx.quick and j % 4 == 0:
            for a in range(0, n + 1, 2):
                for b in range(0, n + 2, 2):
                    out.append(race(h, ["start", "start"], 0, [a, b]))
    for j, t in enumerate((after[:2] + before[:1]) if ctx.quick else stamps):
        cmds = [c for c in COMMANDS if c != "start"]
        for c in ([cmds[(j + ctx.rng.randrange(len(cmds))) % len(cmds)], "set"] if ctx.quick else cmds):
            out.append(solo("outdated@%s" % t, c, 0))
    return out


_CACHE = {}


def key(case):
    return json.dumps(case, sort_keys=True)


def run_all(cases, workers=None):
    todo = [c for c in cases if key(c) not in _CACHE]
    with concurrent.futures.ThreadPoolExecutor(max_workers=workers or common.NPROC) as ex:
        for c, o in zip(todo, ex.map(execute, todo)):
            _CACHE[key(c)] = o


def impl(case):
    k = key(case)
    if k not in _CACHE:
        _CACHE[k] = execute(case)
    return _CACHE[k]


def stress(ctx, nproc, reps):
    """real OS scheduling: nproc uninstrumented starts at once on an empty home"""
    bad = []
    for r in range(reps):
        root, home = make_home("fresh")
        try:
            env = dict(os.environ)
            env.update({"HOME": home, "PYTHONPATH": common.REPO, "PYTHONDONTWRITEBYTECODE": "1"})
            ps = [subprocess.Popen([PY, "-W", "ignore", "-c", PLAIN], env=env, stdout=subprocess.DEVNULL,
                                   stderr=subprocess.PIPE) for _ in range(nproc)]
            for p in ps:
                _, err = p.communicate(timeout=120)
                if p.returncode != 0:
                    bad.append({"rep": r, "rc": p.returncode, "err": err.decode("utf-8", "replace")[-300:]})
        finally:
            shutil.rmtree(root, ignore_errors=True)
    return bad


def run(ctx, replay=None, proofs_ok=True):
    facts()
    stress_bad, n_stress = [], 0
    if replay is not None and replay.get("case", {}).get("kind") != "stress":
        cases = [replay["case"]]
    else:
        cases = []
        scen = scenario_list(ctx)
        solos = [solo(h, c, ch) for h, c, ch in scen]
        run_all(solos)
        cases += solos
        # every crash point of every traced scenario, followed by a (traced) fresh start and a plain one
        for (h, c, ch), s in zip(scen, solos):
            n = len(_CACHE[key(s)]["trace"])
            for k in range(0, n + 1):
                cases.append(crash(h, c, ch, k))
        # interleavings of two first starts (bounded number of context switches)
        n_fresh = len(_CACHE[key(solo("fresh", "start", 0))]["trace"])
        n_out = len(_CACHE[key(solo("outdated", "start", 0))]["trace"])
        for a in range(0, n_fresh + 1):
            for b in range(0, n_fresh + 2):
                cases.append(race("fresh", ["start", "start"], 0, [a, b]))
        step = ctx.n(2, 1)
        for a in range(0, n_out + 1, step):
            for b in range(0, n_out + 2, step):
                cases.append(race("outdated", ["start", "start"], 0, [a, b]))
        for a in range(0, n_fresh + 1, ctx.n(3, 1)):
            for b in range(0, n_fresh + 2, ctx.n(3, 1)):
                for c in range(1, n_fresh + 1, ctx.n(3, 1)):
                    cases.append(race("fresh", ["start", "start"], 0, [a, b, c]))
        if not ctx.quick:
            for a in range(0, n_fresh + 4, 2):
                for b in range(0, n_fresh + 4, 2):
                    cases.append(race("fresh", ["start", "start"], 2, [a, b]))
                    for c in range(0, n_fresh + 2, 3):
                        cases.append(race("fresh", ["start", "start", "start"], 0, [a, b, c]))
            for a in range(0, 30, 2):
                for b in range(0, 30, 2):
                    cases.append(race("init", ["set", "reset_subset"], 0, [a, b]))
                    cases.append(race("outdated", ["set", "start"], 0, [a, b]))
                    cases.append(race("init", ["merge_soft", "reset_all"], 0, [a, b]))
        else:
            for a in range(0, 30, 5):
                for b in range(0, 30, 5):
                    cases.append(race("init", ["set", "reset_subset"], 0, [a, b]))
                    cases.append(race("outdated", ["set", "start"], 0, [a, b]))
        cases += upgrade_cases(ctx)
        seen, uniq = set(), []
        for c in cases:
            if key(c) not in seen:
                seen.add(key(c))
                uniq.append(c)
        cases = uniq
        run_all(cases)
        n_stress = ctx.n(6, 40)
        stress_bad = stress(ctx, 8, n_stress)
    failures, stats = common.differential(ctx, cases, imports=IMPORTS, impl=impl, expr=expr, judge=judge,
                                          scope=None, per_file=60,
                                          nontrivial=lambda c, v, o: len(o["trace"]) >= 3)
    for b in stress_bad[:1]:
        failures.append({"kind": "spec-violation", "failing_input": True,
                         "case": {"kind": "stress", "home": "fresh", "nproc": 8},
                         "detail": "one of 8 simultaneous first starts on an empty home failed: %r" % (b,),
                         "model_output": None, "impl_output": b})
    hist, steps, traces = {}, 0, set()
    for c in cases:
        hist[c["kind"] + ":" + c["home"]] = hist.get(c["kind"] + ":" + c["home"], 0) + 1
        o = _CACHE.get(key(c))
        if o:
            steps += len(o["trace"])
            traces.add(json.dumps(o["trace"], sort_keys=True))
    cov = {"evaluations": stats["evaluations"] + n_stress, "distinct_nontrivial": len(traces),
           "rule": "distinct recorded file-system traces (sequence of primitives with their observed results, over all "
                   "processes of the run) with at least 3 steps",
           "exhaustive": True,
           "samples": cases[:2] + cases[-2:],
           "input_distribution": hist,
           "fs_steps_checked": steps,
           "stress_runs": {"simultaneous_first_starts": 8, "repetitions": n_stress, "failures": len(stress_bad)},
           "scenarios": ["%s/%s/chunks=%d" % s for s in scenario_list(ctx)],
           "upgrade_from_release_tags": facts()["old_stamps"],
           "release_tags_sorting_after_the_current_one_as_text": [t for t in facts()["old_stamps"]
                                                                  if t > facts()["version"]],
           "disagreements": stats["disagreements"]}
    return {"failures": failures, "coverage": cov}


LEVEL_TEXT = ("Machine-checked theorems (Coq) over a file-system model with primitive steps (exists, mkdir, open-truncate, "
              "partial write, close, rename, read), an interleaving semantics for any number of processes and crashes at "
              "any step: (1) for any participants that keep the checked discipline (shared files are only the target of "
              "a rename of a completely written private temp file; mkdir exist_ok) settings.json and assets_version are "
              "absent or complete in every reachable state and a complete file stays complete; (2) evo's own programs "
              "(start; set; set -m; reset; reset <params>, any chunking of writes) never fail and every load sees every "
              "default key, for any number of processes, any schedule, any crash points, from any home such operations "
              "can leave behind. The old in-place protocol is refuted by explicit schedules. Tie: every file-system "
              "primitive of the real code is recorded under a scheduler-controlled shim; Coq checks each recorded trace "
              "against the discipline, the model's file-system semantics (directory after every step) and the model's "
              "programs; every crash point of every scenario and all two-process interleavings with up to 3 context "
              "switches are executed on the real code, each followed by a real fresh start.")
LEVEL_NOTE = ("Trusted: Coq kernel/VM; the hand-written model (tied by traces, not proved equal to the Python); the "
              "recording shim; POSIX rename atomicity; privacy of temp files through distinct pids. Not exhibited: "
              "real OS preemption inside a primitive, power loss.")
TECHNIQUE = ("Coq proof (rely/guarantee invariant via a verified abstract interpreter, induction over schedules) + "
             "trace correspondence of the real code under a deterministic scheduler with exhaustive crash injection")
