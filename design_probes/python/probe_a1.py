import numpy as np, copy, random
from evo.core import lie_algebra as lie, trajectory
from evo.core.trajectory import PosePath3D, PoseTrajectory3D, Plane
import evo.core.transformations as tr
from scipy.spatial.transform import Rotation
rng=np.random.default_rng(11); random.seed(11)
def rnd_se3(): return lie.se3(Rotation.random(random_state=int(rng.integers(1<<30))).as_matrix(), rng.normal(size=3)*3)
def build(n, mode, stamps):
    poses=[rnd_se3() for _ in range(n)]
    ts=np.cumsum(rng.random(n)+0.1) if stamps else None
    if mode=="mat":
        obj=PoseTrajectory3D(poses_se3=[p.copy() for p in poses],timestamps=ts.copy()) if stamps else PosePath3D(poses_se3=[p.copy() for p in poses])
    else:
        xyz=np.array([p[:3,3] for p in poses]); q=np.array([tr.quaternion_from_matrix(p) for p in poses])
        obj=PoseTrajectory3D(xyz,q,ts.copy()) if stamps else PosePath3D(xyz,q)
    return obj,[p.copy() for p in poses],(ts.copy() if stamps else None)
def check(obj,ref,ts,hist):
    errs=[]
    P=obj.poses_se3
    if len(P)!=len(ref): errs.append("len poses")
    else:
        if not all(np.allclose(a,b,atol=1e-8) for a,b in zip(P,ref)): errs.append("poses")
    if obj.positions_xyz.shape[0]!=len(ref) or not np.allclose(obj.positions_xyz,np.array([r[:3,3] for r in ref]).reshape(-1,3),atol=1e-8): errs.append("positions")
    q=obj.orientations_quat_wxyz
    if q.shape[0]!=len(ref) or not all(np.allclose(tr.quaternion_matrix(qq)[:3,:3],r[:3,:3],atol=1e-7) for qq,r in zip(q,ref)): errs.append("quats")
    if ts is not None and (len(obj.timestamps)!=len(ref) or not np.array_equal(obj.timestamps,ts)): errs.append("stamps")
    if obj.num_poses!=len(ref): errs.append("num")
    if not obj.check()[0]: errs.append("check")
    if errs: print("VIOL",errs,hist)
    return not errs
def reads(obj):
    for r in random.sample(["p","q","m"],random.randint(0,3)):
        if r=="p": obj.positions_xyz
        if r=="q": obj.orientations_quat_wxyz
        if r=="m": obj.poses_se3
nviol=0
for it in range(1500):
    n=random.randint(1,12); mode=random.choice(["mat","pq"]); stamps=random.random()<0.6
    obj,ref,ts=build(n,mode,stamps); hist=[(n,mode,stamps)]
    projected=False
    for step in range(random.randint(1,8)):
        reads(obj)
        op=random.choice(["left","right","prop","scale","reduce","down","crop","project","copy","mfilter"])
        if op in("left","right","prop"):
            T=rnd_se3()
            if op=="left": obj.transform(T); ref=[T@p for p in ref]
            if op=="right": obj.transform(T,right_mul=True); ref=[p@T for p in ref]
            if op=="prop":
                obj.transform(T,right_mul=True,propagate=True)
                new=[ref[0]]
                for i in range(len(ref)-1): new.append(new[-1]@(np.linalg.inv(ref[i])@ref[i+1]@T))
                ref=new
        elif op=="scale":
            s=float(rng.uniform(0.1,5)); obj.scale(s); ref=[lie.se3(p[:3,:3],s*p[:3,3]) for p in ref]
        elif op=="reduce":
            ids=sorted(random.sample(range(len(ref)),random.randint(1,len(ref)))); obj.reduce_to_ids(ids); ref=[ref[i] for i in ids]; ts=ts[ids] if ts is not None else None
        elif op=="down":
            N=random.randint(1,len(ref)+2)
            if N<len(ref):
                ids=np.linspace(0,len(ref)-1,N,dtype=int); ref=[ref[i] for i in ids]; ts=ts[ids] if ts is not None else None
            obj.downsample(N)
        elif op=="crop":
            if ts is None: continue
            a,b=sorted(rng.uniform(ts[0]-1,ts[-1]+1,size=2))
            keep=[i for i,t in enumerate(ts) if a<=t<=b]
            if not keep: continue
            obj.reduce_to_time_range(a,b); ref=[ref[i] for i in keep]; ts=ts[keep]
        elif op=="project":
            if projected: continue
            pl=random.choice(list(Plane)); nd={Plane.XY:2,Plane.XZ:1,Plane.YZ:0}[pl]
            new=[]
            for p in ref:
                q=p.copy(); q[nd,3]=0
                ang=tr.euler_from_matrix(p[:3,:3],"sxyz")[nd]; ax=np.zeros(3); ax[nd]=1
                q[:3,:3]=lie.so3_exp(ax*ang); new.append(q)
            obj.project(pl); ref=new; projected=True
        elif op=="copy":
            obj=copy.deepcopy(obj)
        elif op=="mfilter":
            if len(ref)<2: continue
            from evo.core import filters
            d=float(rng.uniform(0,5)); a=float(rng.uniform(0,3))
            ids=filters.filter_by_motion(ref,d,a,False)
            obj.motion_filter(d,a); ref=[ref[i] for i in ids]; ts=ts[ids] if ts is not None else None
        hist.append(op)
        reads(obj)
        if not check(obj,ref,ts,hist): nviol+=1; break
print("histories done, violations:",nviol)
