import numpy as np
import matplotlib; matplotlib.use("Agg"); import matplotlib.pyplot as plt
from evo.core import lie_algebra as lie
from evo.core.metrics import Unit
from evo.core.trajectory import PoseTrajectory3D, PosePath3D
from evo.tools import plot
from scipy.spatial.transform import Rotation
rng=np.random.default_rng(2)
n=7
poses=[lie.se3(Rotation.random(random_state=int(rng.integers(1<<30))).as_matrix(),rng.normal(size=3)*4) for _ in range(n)]
T=PoseTrajectory3D(poses_se3=poses,timestamps=100+np.cumsum(rng.random(n)+0.1)); T2=PoseTrajectory3D(poses_se3=[lie.se3(p[:3,:3],p[:3,3]+1) for p in poses],timestamps=T.timestamps)
P=PosePath3D(poses_se3=poses)
bad=[]
for mode in plot.PlotMode:
    xi,yi,zi=plot.plot_mode_to_idx(mode); idx=[xi,yi]+([zi] if zi is not None else [])
    fig=plt.figure(); ax=plot.prepare_axis(fig,mode)
    plot.traj_colormap(ax,T,np.arange(n,dtype=float),mode,0,n-1,fig=fig,plot_start_end_markers=True)
    lc=ax.collections[0]
    segs=lc._segments3d if mode==plot.PlotMode.xyz else lc.get_segments()
    exp=[np.array([T.positions_xyz[k][idx],T.positions_xyz[k+1][idx]]) for k in range(n-1)]
    if len(segs)!=n-1 or not all(np.array_equal(np.asarray(s),e) for s,e in zip(segs,exp)): bad.append(("colormap",mode.name))
    # markers
    sc=[c for c in ax.collections[1:]]
    offs=[(np.array(c._offsets3d).T[0] if mode==plot.PlotMode.xyz else np.asarray(c.get_offsets())[0]) for c in sc]
    if not (np.array_equal(offs[0],T.positions_xyz[0][idx]) and np.array_equal(offs[1],T.positions_xyz[-1][idx])): bad.append(("markers",mode.name,offs))
    plt.close(fig)
    fig=plt.figure(); ax=plot.prepare_axis(fig,mode)
    plot.draw_coordinate_axes(ax,T,mode,0.5)
    lc=ax.collections[0]; segs=lc._segments3d if mode==plot.PlotMode.xyz else lc.get_segments()
    exp=[]
    for a in range(3):
        for p in poses:
            tip=p[:3,3]+0.5*p[:3,a]; exp.append(np.array([p[:3,3][idx],tip[idx]]))
    if len(segs)!=3*n or not all(np.allclose(np.asarray(s),e,atol=1e-12) for s,e in zip(segs,exp)): bad.append(("axes",mode.name))
    plt.close(fig)
    fig=plt.figure(); ax=plot.prepare_axis(fig,mode)
    plot.draw_correspondence_edges(ax,T,T2,mode)
    lc=ax.collections[0]; segs=lc._segments3d if mode==plot.PlotMode.xyz else lc.get_segments()
    exp=[np.array([a[idx],b[idx]]) for a,b in zip(T.positions_xyz,T2.positions_xyz)]
    if len(segs)!=n or not all(np.array_equal(np.asarray(s),e) for s,e in zip(segs,exp)): bad.append(("corr",mode.name))
    plt.close(fig)
for tr_,st in ((T,None),(T,100.0),(P,None)):
    fig,axarr=plt.subplots(3); plot.traj_xyz(axarr,tr_,start_timestamp=st,length_unit=Unit.millimeters)
    x=(tr_.timestamps-(st or 0)) if isinstance(tr_,PoseTrajectory3D) else np.arange(n,dtype=float)
    for i in range(3):
        l=axarr[i].lines[0]
        if not (np.array_equal(l.get_xdata(),x) and np.array_equal(l.get_ydata(),tr_.positions_xyz[:,i])): bad.append(("xyz",i,st))
    print([a.get_ylabel() for a in axarr], axarr[2].get_xlabel())
    fig,axarr=plt.subplots(3); plot.traj_rpy(axarr,tr_,start_timestamp=st)
    ang=np.rad2deg(tr_.get_orientations_euler("sxyz"))
    for i in range(3):
        l=axarr[i].lines[0]
        if not (np.array_equal(l.get_xdata(),x) and np.allclose(l.get_ydata(),ang[:,i])): bad.append(("rpy",i,st))
    plt.close("all")
fig=plt.figure(); plot.speeds(fig.gca(),T,start_timestamp=100.0); l=fig.gca().lines[0]
if not (np.array_equal(l.get_xdata(),T.timestamps[1:]-100.0) and np.array_equal(l.get_ydata(),T.speeds)): bad.append("speeds")
fig=plt.figure(); plot.error_array(fig.gca(),np.arange(5.),x_array=np.arange(5.)*2); l=fig.gca().lines[0]
if not (np.array_equal(l.get_xdata(),np.arange(5.)*2) and np.array_equal(l.get_ydata(),np.arange(5.))): bad.append("error_array")
print("bad",bad)
