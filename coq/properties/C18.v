(* C18 - config edits and generated configs. Property theorems only; proofs live in Evo.ConfigProofs.
   [F] = carrier of JSON floats; [palette_ok] = seaborn's palette-name oracle; [defaults] = any
   DEFAULT_SETTINGS_DICT without duplicate keys (EvoGen.C18Defaults carries the shipped one, re-translated
   from evo/tools/settings_template.py on every run). *)
From Coq Require Import Ascii String.
From Coq Require Import List Bool ZArith.
From Evo Require Import Config ConfigProofs.
From EvoGen Require Import C18Defaults.
Import ListNotations.
Local Open Scope string_scope.

(* --- evo_config set --- *)
Theorem C18_set_never_adds_or_removes_keys :
  forall (F : Type) (palette_ok : string -> bool) (cfg : dict F) (args : list (token F)),
  keys (set_config palette_ok cfg args) = keys cfg.
Proof. exact @set_keys_invariant. Qed.
Print Assumptions C18_set_never_adds_or_removes_keys.

Theorem C18_set_changes_only_named_keys :
  forall (F : Type) (palette_ok : string -> bool) (cfg : dict F) (args : list (token F)) k,
  (forall a, In a args -> txt a <> k) -> get k (set_config palette_ok cfg args) = get k cfg.
Proof. exact @set_changes_only_named. Qed.
Print Assumptions C18_set_changes_only_named_keys.

Theorem C18_boolean_parameters_stay_boolean :
  forall (F : Type) (palette_ok : string -> bool) (cfg : dict F) (args : list (token F)) k b,
  k <> PALETTE -> get k cfg = Some (JBool b) -> exists b', get k (set_config palette_ok cfg args) = Some (JBool b').
Proof. exact @bool_stays_bool. Qed.
Print Assumptions C18_boolean_parameters_stay_boolean.

Theorem C18_explicit_true_false_or_toggle :
  forall (F : Type) (palette_ok : string -> bool) (cfg : dict F) k b (v : token F),
  k <> PALETTE -> get k cfg = Some (JBool b) -> has (txt v) cfg = false -> num v = NotNum ->
  get k (set_config palette_ok cfg [mkTok k NotNum; v]) =
    Some (JBool (if String.eqb (lower (txt v)) "false" then false else if String.eqb (lower (txt v)) "true" then true else negb b)) /\
  get k (set_config palette_ok cfg [mkTok k NotNum]) = Some (JBool (negb b)).
Proof. intros. split; [now apply set_bool_explicit|now apply set_bool_toggle]. Qed.
Print Assumptions C18_explicit_true_false_or_toggle.

Theorem C18_list_parameters_stay_lists :
  forall (F : Type) (palette_ok : string -> bool) (cfg : dict F) (args : list (token F)) k l,
  k <> PALETTE -> get k cfg = Some (JList l) -> exists l', get k (set_config palette_ok cfg args) = Some (JList l').
Proof. exact @list_stays_list. Qed.
Print Assumptions C18_list_parameters_stay_lists.

Theorem C18_numeric_tokens_become_numbers :
  forall (F : Type) (palette_ok : string -> bool) (cfg : dict F) k (v : token F) old,
  k <> PALETTE -> get k cfg = Some old -> (forall b, old <> JBool b) -> (forall l, old <> JList l) ->
  has (txt v) cfg = false -> num v <> NumBad ->
  get k (set_config palette_ok cfg [mkTok k NotNum; v]) =
  Some (match num v with NumInt z => JInt z | NumFlt f => JFloat f | _ => JStr (txt v) end).
Proof. exact @set_scalar_value. Qed.
Print Assumptions C18_numeric_tokens_become_numbers.

Theorem C18_refused_set_leaves_file_untouched :
  forall (F : Type) (palette_ok : string -> bool) (cfg : dict F) (args : list (token F)),
  set_loop palette_ok cfg args = None -> set_config palette_ok cfg args = cfg.
Proof. exact @set_refusal_changes_nothing. Qed.
Print Assumptions C18_refused_set_leaves_file_untouched.

(* --- reset / upgrade / merge --- *)
Theorem C18_reset_subset_restores_exactly_those_keys :
  forall (F : Type) (defaults cfg : dict F) ps k,
  get k (reset defaults cfg (Some ps)) = if existsb (String.eqb k) ps && has k defaults then get k defaults else get k cfg.
Proof. exact @reset_subset. Qed.
Print Assumptions C18_reset_subset_restores_exactly_those_keys.

Theorem C18_upgrade_adds_missing_keeps_user_values :
  forall (F : Type) (defaults : dict F), NoDup (keys defaults) -> forall (cfg : dict F) k,
  get k (upgrade defaults cfg) = match get k cfg with Some v => Some v | None => get k defaults end.
Proof. exact @upgrade_adds_missing_keeps_user. Qed.
Print Assumptions C18_upgrade_adds_missing_keeps_user_values.

Theorem C18_merge_soft_and_hard :
  forall (F : Type) (a b : dict F) k, NoDup (keys b) ->
  get k (merge_dicts true a b) = match get k a with Some v => Some v | None => get k b end /\
  get k (merge_dicts false a b) = match get k b with Some v => Some v | None => get k a end.
Proof. intros. split; [now apply merge_dicts_soft|now apply merge_dicts_hard]. Qed.
Print Assumptions C18_merge_soft_and_hard.

(* --- all histories of set / reset / merge / upgrade --- *)
Theorem C18_histories_keep_the_key_set :
  forall (F : Type) (palette_ok : string -> bool) (defaults : dict F), NoDup (keys defaults) ->
  forall (ops : list (@op F)) (cfg : dict F), Forall (op_ok defaults) ops ->
  known_only defaults cfg -> complete defaults cfg ->
  known_only defaults (run palette_ok defaults ops cfg) /\ complete defaults (run palette_ok defaults ops cfg).
Proof. exact @history_keys. Qed.
Print Assumptions C18_histories_keep_the_key_set.

Theorem C18_histories_keep_boolean_and_list_kinds :
  forall (F : Type) (palette_ok : string -> bool) (defaults : dict F), NoDup (keys defaults) ->
  forall (ops : list (@op F)) (cfg : dict F), Forall (op_kinds_ok defaults) ops ->
  kinds_ok defaults cfg -> kinds_ok defaults (run palette_ok defaults ops cfg).
Proof. exact @history_kinds. Qed.
Print Assumptions C18_histories_keep_boolean_and_list_kinds.

(* ... instantiated at the shipped defaults (generated, duplicate-free by computation) *)
Theorem C18_histories_from_the_shipped_defaults :
  forall (palette_ok : string -> bool) (ops : list op),
  Forall (op_ok default_settings) ops -> Forall (op_kinds_ok default_settings) ops ->
  let final := run palette_ok default_settings ops default_settings in
  known_only default_settings final /\ complete default_settings final /\ kinds_ok default_settings final.
Proof.
  intros p ops O K. cbn zeta.
  destruct (history_keys p default_settings default_settings_nodup ops default_settings O) as [A B].
  - intros k H; exact H.
  - intros k H; exact H.
  - split; [exact A|]. split; [exact B|].
    apply history_kinds; [exact default_settings_nodup|exact K|apply defaults_kinds_ok].
Qed.
Print Assumptions C18_histories_from_the_shipped_defaults.

(* --- the loaded SettingsContainer --- *)
Theorem C18_locked_container_refuses_unknown_parameters :
  forall (F : Type) (fz : F -> bool) (c : dict F) k v,
  locked fz c = true -> has k c = false -> setattr fz c k v = None.
Proof. exact @locked_no_new_keys. Qed.
Print Assumptions C18_locked_container_refuses_unknown_parameters.

Theorem C18_container_histories_add_no_keys :
  forall (F : Type) (fz : F -> bool) (ops : list (@cop F)) (c : dict F),
  Forall cop_spares_lock ops -> locked fz c = true ->
  keys (fold_left (apply_cop fz) ops c) = keys c /\ locked fz (fold_left (apply_cop fz) ops c) = true.
Proof. exact (fun F fz => @container_history F (fun _ => true) fz). Qed.
Print Assumptions C18_container_histories_add_no_keys.

(* --- -c / --config --- *)
Theorem C18_config_file_overrides_command_line_values :
  forall (F : Type) (args cfgfile settings : dict F) k, NoDup (keys cfgfile) ->
  get k (fst (merge_config args cfgfile settings)) = match get k cfgfile with Some v => Some v | None => get k args end.
Proof. exact @config_overrides_args. Qed.
Print Assumptions C18_config_file_overrides_command_line_values.

Theorem C18_config_file_overrides_matching_settings_only :
  forall (F : Type) (args cfgfile settings : dict F) k, NoDup (keys cfgfile) ->
  keys (snd (merge_config args cfgfile settings)) = keys settings /\
  get k (snd (merge_config args cfgfile settings)) =
    match get k settings with
    | Some old => match get k cfgfile with Some v => Some v | None => Some old end
    | None => None
    end.
Proof. exact (fun F => @config_updates_matching_settings F (fun _ => true)). Qed.
Print Assumptions C18_config_file_overrides_matching_settings_only.

(* --- evo_config generate --- *)
Theorem C18_generated_config_equals_its_arguments :
  forall (F : Type) (F_of_Z : Z -> F) (bad_float : string -> json F) (dflt : dict F) (args : list (@arg F)) k,
  Forall arg_ok args ->
  osim F_of_Z (get k (update dflt (generate bad_float (flatten args)))) (get k (parse_direct F_of_Z dflt args)).
Proof. exact @generate_equiv. Qed.
Print Assumptions C18_generated_config_equals_its_arguments.

Theorem C18_generated_int_options_stay_integral :
  forall (F : Type) (F_of_Z : Z -> F) (bad_float : string -> json F) (dflt : dict F) (args : list (@arg F)) k z,
  Forall arg_ok args -> lastv (arg_value F_of_Z) k args = Some (JInt z) ->
  get k (update dflt (generate bad_float (flatten args))) = Some (JInt z) /\
  get k (parse_direct F_of_Z dflt args) = Some (JInt z).
Proof. exact @generate_keeps_int_options_integral. Qed.
Print Assumptions C18_generated_int_options_stay_integral.

(* regression witness for finding F6: the old generate is refuted on both inputs, the current one is not *)
Theorem C18_old_generate_refuted :
  exists (args1 args2 : list (@arg Z)),
    Forall arg_ok args1 /\ Forall arg_ok args2 /\
    get "downsample" (generate_old (fun z => z) (flatten args1)) = Some (JFloat 500%Z) /\
    generate_old (fun z => z) (flatten args2) = [("t_offset", JBool true); ("0.5", JBool true)] /\
    get "downsample" (generate (fun _ => JNull) (flatten args1)) = Some (JInt 500) /\
    generate (fun _ => JNull) (flatten args2) = [("t_offset", JFloat (-5)%Z)].
Proof.
  exists [AInt "downsample" 500 "500"], [AFloat "t_offset" (VFlt (-5)%Z) "-0.5"].
  split; [repeat constructor|]. split; [repeat constructor|]. exact old_generate_refuted.
Qed.
Print Assumptions C18_old_generate_refuted.

(* non-vacuity: the two inputs of finding F6 (fixed) on the model of the current generate *)
Theorem C18_example_downsample_and_negative_offset :
  generate (F := Z) (fun _ => JNull)
    [mkTok "--downsample" NotNum; mkTok "500" (NumInt 500); mkTok "--t_offset" NotNum; mkTok "-0.5" (NumFlt (-5)%Z)]
  = [("downsample", JInt 500); ("t_offset", JFloat (-5)%Z)].
Proof. reflexivity. Qed.
Print Assumptions C18_example_downsample_and_negative_offset.
