"""C19 child process: runs real evo code (the module level of evo/tools/settings.py, optionally followed by an
evo_config sub-command) under a recording shim over the file-system primitives, reporting every primitive
on a pipe and (in scheduled mode) waiting for the parent's permission before each one.

  python c19_child.py <ctl_in_fd> <ev_out_fd> <sched|free> <chunks> <cmd> [args...]

cmd: start | config <evo_config argv...>
Nothing in /repo is modified; all instrumentation is monkey-patching from this process.
The parent kills this process with SIGKILL at a waiting point to inject a crash.
"""
import builtins
import io
import json
import os
import pathlib
import sys
import threading

CTL = os.fdopen(int(sys.argv[1]), "r")
EVT = os.fdopen(int(sys.argv[2]), "w")
SCHED = sys.argv[3] == "sched"
CHUNKS = int(sys.argv[4])
CMD = sys.argv[5:]
HOME = os.path.realpath(os.environ["HOME"])

_real_open = builtins.open
_real = {"replace": os.replace, "rename": os.rename, "remove": os.remove, "unlink": os.unlink,
         "mkdir": os.mkdir, "makedirs": os.makedirs, "rmdir": os.rmdir,
         "exists": os.path.exists, "isfile": os.path.isfile,
         "p_mkdir": pathlib.Path.mkdir, "p_exists": pathlib.Path.exists, "p_is_file": pathlib.Path.is_file,
         "p_unlink": pathlib.Path.unlink, "p_rename": pathlib.Path.rename, "p_replace": pathlib.Path.replace,
         "p_touch": pathlib.Path.touch, "os_open": os.open, "truncate": os.truncate}
_tls = threading.local()


def _inside():
    return getattr(_tls, "depth", 0) > 0


class _Guard:
    def __enter__(self):
        _tls.depth = getattr(_tls, "depth", 0) + 1

    def __exit__(self, *a):
        _tls.depth -= 1


def _mine(p):
    try:
        if isinstance(p, int):
            return None
        s = os.path.abspath(os.fspath(p))
    except TypeError:
        return None
    if isinstance(s, bytes):
        s = s.decode()
    if s == HOME or s.startswith(HOME + os.sep):
        return s
    return None


def _send(msg):
    EVT.write(json.dumps(msg) + "\n")
    EVT.flush()


def _pre(op, **kw):
    """announce a primitive; in scheduled mode wait for the parent's go"""
    msg = {"ph": "pre", "op": op}
    msg.update(kw)
    _send(msg)
    if SCHED:
        line = CTL.readline()
        if not line:
            os._exit(97)


def _post(**kw):
    msg = {"ph": "post"}
    msg.update(kw)
    _send(msg)


def _slurp(path):
    try:
        with _real_open(path, "rb") as f:
            return f.read().decode("utf-8", "replace")
    except OSError:
        return None


class _WProxy:
    """file opened for writing under HOME: data reaches the disk in CHUNKS partial writes (each a reported
    step) and the rest at close (as python's own buffering does for a small document)"""

    def __init__(self, real, path):
        self.__dict__["_r"] = real
        self.__dict__["_p"] = path
        self.__dict__["_buf"] = []
        self.__dict__["_closed"] = False

    def write(self, data):
        self._buf.append(data)
        return len(data)

    def writelines(self, lines):
        for l in lines:
            self.write(l)

    def flush(self):
        pass

    def close(self):
        if self._closed:
            return
        self.__dict__["_closed"] = True
        binary = any(isinstance(b, (bytes, bytearray)) for b in self._buf)
        full = (b"" if binary else "").join(self._buf)
        n = CHUNKS if len(full) >= 2 * (CHUNKS + 1) else 0
        size = len(full) // (n + 1) if n else 0
        with _Guard():
            for k in range(n):
                _pre("write", path=self._p)
                self._r.write(full[k * size:(k + 1) * size])
                self._r.flush()
            _pre("close", path=self._p, text=full.decode("utf-8", "replace") if binary else full)
            self._r.write(full[n * size:])
            self._r.close()

    def __enter__(self):
        return self

    def __exit__(self, *a):
        self.close()
        return False

    def __del__(self):
        try:
            self.close()
        except Exception:
            pass

    def __getattr__(self, name):
        return getattr(self._r, name)


def _open(file, mode="r", *a, **kw):
    path = None if _inside() else _mine(file)
    if path is None:
        return _real_open(file, mode, *a, **kw)
    with _Guard():
        if any(c in mode for c in "wax+"):
            _pre("openw", path=path, mode=mode)
            real = _real_open(file, mode, *a, **kw)
            if "a" in mode or "+" in mode:
                return real     # reported as an unknown kind of write by the parent (mode is in the event)
            return _WProxy(real, path)
        _pre("read", path=path)
        text = _slurp(path)
        _post(text=text)
        return _real_open(file, mode, *a, **kw)


def _wrap2(name, op):
    real = _real[name]

    def f(src, dst, *a, **kw):
        s, d = (None, None) if _inside() else (_mine(src), _mine(dst))
        if s is None and d is None:
            return real(src, dst, *a, **kw)
        with _Guard():
            _pre(op, src=s or os.fspath(src), dst=d or os.fspath(dst))
            return real(src, dst, *a, **kw)
    return f


def _wrap1(name, op, result=False, extra=None):
    real = _real[name]

    def f(p, *a, **kw):
        path = None if _inside() else _mine(p)
        if path is None:
            return real(p, *a, **kw)
        with _Guard():
            info = extra(a, kw) if extra else {}
            _pre(op, path=path, **info)
            try:
                r = real(p, *a, **kw)
            except Exception as e:
                _post(error=type(e).__name__)
                raise
            if result:
                _post(result=bool(r))
            return r
    return f


def _mkdir_info(a, kw):
    return {"exist_ok": bool(kw.get("exist_ok", a[2] if len(a) > 2 else False)),
            "parents": bool(kw.get("parents", a[1] if len(a) > 1 else False))}


def _os_mkdir_info(a, kw):
    return {"exist_ok": bool(kw.get("exist_ok", False)), "parents": False}


def _os_open(path, flags, *a, **kw):
    p = None if _inside() else _mine(path)
    if p is not None and flags & (os.O_WRONLY | os.O_RDWR | os.O_CREAT | os.O_TRUNC):
        with _Guard():
            _pre("openw", path=p, mode="os.open")
    return _real["os_open"](path, flags, *a, **kw)


def install():
    builtins.open = _open
    io.open = _open
    os.replace = _wrap2("replace", "rename")
    os.rename = _wrap2("rename", "rename")
    os.remove = _wrap1("remove", "unlink")
    os.unlink = _wrap1("unlink", "unlink")
    os.rmdir = _wrap1("rmdir", "unlink")
    os.truncate = _wrap1("truncate", "openw")
    os.mkdir = _wrap1("mkdir", "mkdir", extra=_os_mkdir_info)
    os.makedirs = _wrap1("makedirs", "mkdir", extra=lambda a, kw: {"exist_ok": bool(kw.get("exist_ok", a[1] if len(a) > 1 else False)), "parents": True})
    os.path.exists = _wrap1("exists", "exists", result=True)
    os.path.isfile = _wrap1("isfile", "exists", result=True)
    os.open = _os_open
    pathlib.Path.mkdir = _wrap1("p_mkdir", "mkdir", extra=_mkdir_info)
    pathlib.Path.exists = _wrap1("p_exists", "exists", result=True)
    pathlib.Path.is_file = _wrap1("p_is_file", "exists", result=True)
    pathlib.Path.unlink = _wrap1("p_unlink", "unlink")
    pathlib.Path.rename = _wrap2("p_rename", "rename")
    pathlib.Path.replace = _wrap2("p_replace", "rename")
    pathlib.Path.touch = _wrap1("p_touch", "openw", extra=lambda a, kw: {"mode": "touch"})


def main():
    install()
    _send({"ph": "hello", "pid": os.getpid()})
    try:
        from evo.tools.settings import SETTINGS           # the start: module level of settings.py
        from evo.tools.settings_template import DEFAULT_SETTINGS_DICT
        missing = sorted(k for k in DEFAULT_SETTINGS_DICT if k not in SETTINGS)
        _send({"ph": "loaded", "missing": missing})
        if CMD and CMD[0] == "config":
            from evo import main_config
            sys.argv = ["evo_config"] + CMD[1:]
            try:
                main_config.main()
            except SystemExit as e:
                if e.code not in (None, 0):
                    raise RuntimeError("evo_config exited with %r" % (e.code,))
    except BaseException as e:  # noqa
        _send({"ph": "end", "ok": False, "err": "%s: %s" % (type(e).__name__, str(e)[:300])})
        EVT.flush()
        os._exit(3)
    _send({"ph": "end", "ok": True})
    EVT.flush()
    os._exit(0)


if __name__ == "__main__":
    main()
