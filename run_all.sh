#!/bin/bash
# run every ready check once on /repo (sequentially) and print one line per check
cd "$(dirname "${BASH_SOURCE[0]}")"
TIER="${1:-quick}"
for p in $(cat harness/ready.txt); do
  s=$(date +%s)
  out=$(./check $p --tier $TIER 2>&1 | grep "^OK\|VIOLATION\|HARNESS\|KNOWN" | cut -c1-160 | head -3 | tr '\n' '|')
  echo "$p $(( $(date +%s) - s ))s $out"
done
