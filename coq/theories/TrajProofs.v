(* TrajProofs.v - invariant and refinement proofs for the trajectory state machine (C08) and the plane
   projection laws (C14), over R. *)
From Coq Require Import Reals Lra Psatz Nsatz Lia List Arith Bool.
From Evo Require Import Num Linalg LinalgR Lie LieProofs Traj.
Import ListNotations.
Local Open Scope R_scope.

Notation Q4R := (R * R * R * R)%type.
Definition unitq (q : Q4R) : Prop := let '(w, x, y, z) := q in w * w + x * x + y * y + z * z = 1.

(* ---------- quaternion_matrix ---------- *)
Section Qmat.
Variable eps4 : R.
Hypothesis eps4_lt1 : eps4 <= 1.
Notation qmatR := (@qmat R _ eps4).

(* the textbook (Hamilton) rotation matrix of a unit quaternion *)
Definition hamilton (q : Q4R) : M3R :=
  let '(w, x, y, z) := q in
  mkM3 (1 - 2 * (y * y + z * z)) (2 * (x * y - z * w)) (2 * (x * z + y * w))
       (2 * (x * y + z * w)) (1 - 2 * (x * x + z * z)) (2 * (y * z - x * w))
       (2 * (x * z - y * w)) (2 * (y * z + x * w)) (1 - 2 * (x * x + y * y)).
Lemma qmat_unit (q : Q4R) : unitq q -> qmatR q = hamilton q.
Proof.
  destruct q as [[[w x] y] z]. unfold unitq, qmat, hamilton. intros U. rnum. rewrite U.
  replace (Rltb 1 eps4) with false by (symmetry; apply Rltb_false; lra).
  replace ((1 + 1) / 1) with 2 by field.
  assert (K : sqrt 2 * sqrt 2 = 2) by (apply sqrt_sqrt; lra).
  set (k := sqrt 2) in *. apply M3_ext; cbn; nsatz.
Qed.
Lemma hamilton_SO3 (q : Q4R) : unitq q -> SO3 (hamilton q).
Proof.
  destruct q as [[[w x] y] z]. unfold unitq, hamilton. intros U.
  split; [split|]; lin_unfold; [apply M3_ext; cbn; nsatz|apply M3_ext; cbn; nsatz|nsatz].
Qed.
Lemma qmat_SO3 (q : Q4R) : unitq q -> SO3 (qmatR q).
Proof. intros U. rewrite qmat_unit by exact U. now apply hamilton_SO3. Qed.
End Qmat.

(* ---------- planar rotations / projection ---------- *)
Lemma planar_cs_unit (a b : R) : let cs := @planar_cs R _ a b in fst cs * fst cs + snd cs * snd cs = 1.
Proof.
  unfold planar_cs. rnum. set (h := sqrt (a * a + b * b)).
  destruct (Reqb h 0) eqn:E; cbn [fst snd]; [ring|].
  assert (Hn : h <> 0) by (intros Z; apply Reqb_true in Z; congruence).
  assert (Hs : h * h = a * a + b * b) by (unfold h; apply sqrt_sqrt; nra).
  transitivity ((a * a + b * b) / (h * h)); [field; exact Hn|]. rewrite <- Hs. field. exact Hn.
Qed.
Lemma rotz_SO3 c s : c * c + s * s = 1 -> SO3 (@rotz R _ c s).
Proof. intros H. unfold rotz. split; [split|]; lin_unfold; [apply M3_ext; cbn; nsatz|apply M3_ext; cbn; nsatz|nsatz]. Qed.
Lemma roty_SO3 c s : c * c + s * s = 1 -> SO3 (@roty R _ c s).
Proof. intros H. unfold roty. split; [split|]; lin_unfold; [apply M3_ext; cbn; nsatz|apply M3_ext; cbn; nsatz|nsatz]. Qed.
Lemma rotx_SO3 c s : c * c + s * s = 1 -> SO3 (@rotx R _ c s).
Proof. intros H. unfold rotx. split; [split|]; lin_unfold; [apply M3_ext; cbn; nsatz|apply M3_ext; cbn; nsatz|nsatz]. Qed.

Section Proj.
Variable eps4 : R.
Notation proj_rotR := (@proj_rot R _ eps4).
Notation proj_poseR := (@proj_pose R _ eps4).
(* every projected orientation is a rotation about the plane normal, hence a valid rotation *)
Theorem proj_rot_planar pl (m : M3R) : exists c s, c * c + s * s = 1 /\
  proj_rotR pl m = match pl with XY => rotz c s | XZ => roty c s | YZ => rotx c s end.
Proof.
  unfold proj_rot. destruct pl.
  - destruct (nltb eps4 _).
    + eexists _, _. split; [apply (planar_cs_unit (m10 m) (m00 m))|reflexivity].
    + exists 1, 0. split; [ring|reflexivity].
  - eexists _, _. split; [apply planar_cs_unit|reflexivity].
  - destruct (nltb eps4 _); eexists _, _; (split; [apply planar_cs_unit|reflexivity]).
Qed.
Theorem proj_rot_SO3 pl (m : M3R) : SO3 (proj_rotR pl m).
Proof.
  destruct (proj_rot_planar pl m) as (c & s & H & ->). destruct pl; [now apply rotz_SO3|now apply roty_SO3|now apply rotx_SO3].
Qed.
Theorem proj_pose_SE3 pl (p : PoseR) : SE3 (proj_poseR pl p).
Proof. apply proj_rot_SO3. Qed.
(* positions: out-of-plane coordinate zero, in-plane coordinates unchanged *)
Theorem proj_pos_spec pl (v : V3R) :
  match pl with
  | XY => vz (@proj_pos R _ pl v) = 0 /\ vx (proj_pos pl v) = vx v /\ vy (proj_pos pl v) = vy v
  | XZ => vy (@proj_pos R _ pl v) = 0 /\ vx (proj_pos pl v) = vx v /\ vz (proj_pos pl v) = vz v
  | YZ => vx (@proj_pos R _ pl v) = 0 /\ vy (proj_pos pl v) = vy v /\ vz (proj_pos pl v) = vz v
  end.
Proof. destruct pl; cbn; repeat split; reflexivity. Qed.

(* planar poses: XY and YZ projections are the identity on them, for every heading *)
Hypothesis eps4_small : 0 <= eps4 < 1.
Lemma sqrt_unit c s : c * c + s * s = 1 -> sqrt (c * c + s * s) = 1.
Proof. intros ->. apply sqrt_1. Qed.
Theorem proj_xy_fixes_planar c s : c * c + s * s = 1 -> proj_rotR XY (rotz c s) = rotz c s.
Proof.
  intros H. unfold proj_rot, rotz, planar_cs. rnum. cbn [m00 m10].
  rewrite (sqrt_unit c s H). replace (Rltb eps4 1) with true by (symmetry; apply Rltb_true; lra).
  replace (s * s + c * c) with (c * c + s * s) by ring. rewrite (sqrt_unit c s H).
  replace (Reqb 1 0) with false by (symmetry; unfold Reqb; destruct (Req_EM_T 1 0); [lra|reflexivity]).
  cbn [fst snd]. f_equal; field.
Qed.
Theorem proj_yz_fixes_planar c s : c * c + s * s = 1 -> proj_rotR YZ (rotx c s) = rotx c s.
Proof.
  intros H. unfold proj_rot, rotx, planar_cs. rnum. cbn [m00 m10 m11 m12 m21 m22].
  replace (1 * 1 + 0 * 0) with 1 by ring. rewrite sqrt_1.
  replace (Rltb eps4 1) with true by (symmetry; apply Rltb_true; lra).
  replace (s * s + c * c) with (c * c + s * s) by ring. rewrite (sqrt_unit c s H).
  replace (Reqb 1 0) with false by (symmetry; unfold Reqb; destruct (Req_EM_T 1 0); [lra|reflexivity]).
  cbn [fst snd]. f_equal; field.
Qed.
(* XZ: the sxyz middle angle is confined to [-pi/2, pi/2]: the heading's cosine is replaced by its absolute value *)
Theorem proj_xz_planar c s : c * c + s * s = 1 -> proj_rotR XZ (roty c s) = roty (Rabs c) s.
Proof.
  intros H. unfold proj_rot, roty, planar_cs. rnum. cbn [m00 m10 m20].
  replace (c * c + 0 * 0) with (Rsqr c) by (unfold Rsqr; ring). rewrite sqrt_Rsqr_abs.
  replace (- - s * - - s + Rabs c * Rabs c) with 1.
  2:{ replace (Rabs c * Rabs c) with (c * c); [lra|]. unfold Rabs; destruct (Rcase_abs c); ring. }
  rewrite sqrt_1. replace (Reqb 1 0) with false by (symmetry; unfold Reqb; destruct (Req_EM_T 1 0); [lra|reflexivity]).
  cbn [fst snd]. f_equal; field.
Qed.
Theorem proj_xz_fixes_planar_partial c s : c * c + s * s = 1 -> 0 <= c -> proj_rotR XZ (roty c s) = roty c s.
Proof. intros H Hc. rewrite (proj_xz_planar c s H), Rabs_pos_eq by exact Hc. reflexivity. Qed.
Theorem proj_xz_fixes_planar_refuted : exists c s, c * c + s * s = 1 /\ proj_rotR XZ (roty c s) <> roty c s.
Proof.
  exists (-3/5), (4/5). split; [lra|]. rewrite proj_xz_planar by lra.
  intros E. assert (E0 : m00 (@roty R _ (Rabs (-3/5)) (4/5)) = m00 (@roty R _ (-3/5) (4/5))) by (rewrite E; reflexivity).
  cbn in E0. rewrite Rabs_left in E0 by lra. lra.
Qed.
(* the operation is a true projection: applying the pose map twice is applying it once (all three planes - the XZ
   defect concerns planar INPUT poses with a negative heading cosine, the XZ OUTPUT always has a non-negative one) *)
Lemma planar_cs_fst_nonneg (a b : R) : 0 <= b -> 0 <= fst (@planar_cs R _ a b).
Proof.
  intros Hb. unfold planar_cs. rnum. set (h := sqrt (a * a + b * b)).
  destruct (Reqb h 0) eqn:E; cbn [fst]; [lra|].
  assert (Hn : h <> 0) by (intros Z; apply Reqb_true in Z; congruence).
  assert (Hp : 0 <= h) by apply sqrt_pos.
  unfold Rdiv. apply Rmult_le_pos; [exact Hb|]. left. apply Rinv_0_lt_compat. lra.
Qed.
Lemma proj_rot_xz_form (m : M3R) : exists c s, c * c + s * s = 1 /\ 0 <= c /\ proj_rotR XZ m = roty c s.
Proof.
  unfold proj_rot. eexists _, _. split; [apply planar_cs_unit|]. split; [|reflexivity].
  apply planar_cs_fst_nonneg. rnum. apply sqrt_pos.
Qed.
Theorem proj_rot_idempotent pl (m : M3R) : proj_rotR pl (proj_rotR pl m) = proj_rotR pl m.
Proof.
  destruct pl.
  - destruct (proj_rot_planar XY m) as (c & s & H & ->). now apply proj_xy_fixes_planar.
  - destruct (proj_rot_xz_form m) as (c & s & H & Hc & ->). now apply proj_xz_fixes_planar_partial.
  - destruct (proj_rot_planar YZ m) as (c & s & H & ->). now apply proj_yz_fixes_planar.
Qed.
Theorem proj_pose_idempotent pl (p : PoseR) : proj_poseR pl (proj_poseR pl p) = proj_poseR pl p.
Proof.
  unfold proj_pose. cbn [prot ptr]. rewrite proj_rot_idempotent. f_equal. destruct pl; reflexivity.
Qed.
End Proj.

(* ---------- the state machine ---------- *)
Section Machine.
Variable qfm : M3R -> Q4R.
Variable cbrt : R -> R.
Variable eps4 : R.
Hypothesis eps4_small : 0 <= eps4 < 1.
(* oracle specifications *)
Hypothesis qfm_spec : forall m, SO3 m -> unitq (qfm m) /\ @qmat R _ eps4 (qfm m) = m.
Hypothesis cbrt_spec : forall x, cbrt x * cbrt x * cbrt x = x.

Notation qmatR := (@qmat R _ eps4).
Notation trajR := (@traj R).
Notation opR := (@op R).
Notation stepR := (@step R _ qfm cbrt eps4).
Notation runR := (@run R _ qfm cbrt eps4).
Notation zipR := (@zip_pose R _ eps4).
Notation absT := (@poses_of R _ eps4).
Notation renormR := (@renorm R _ cbrt).

Definition Inv (s : trajR) : Prop :=
  Forall SE3 (absT s) /\
  (forall xs, t_pos s = Some xs -> xs = map ptr (absT s)) /\
  (forall qs, t_quat s = Some qs -> Forall unitq qs /\ map qmatR qs = map prot (absT s)) /\
  (forall st, t_stamps s = Some st -> length st = length (absT s)) /\
  (t_poses s = None -> exists xs qs, t_pos s = Some xs /\ t_quat s = Some qs /\ length xs = length qs).

(* the documented effect of every operation on the abstract pose list *)
Definition scale_pose (k : R) (p : PoseR) : PoseR := mkPose (prot p) (vscale k (ptr p)).
Definition spec_step (P : list PoseR) (o : opR) : option (list PoseR) :=
  match o with
  | RdPos | RdQuat | RdPoses | Copy => Some P
  | Transform t rgt propagate sim =>
      let P' := transform_poses t rgt propagate P in Some (if sim then map renormR P' else P')
  | Scale k => Some (map (scale_pose k) P)
  | Reduce ids => select P ids
  | Project pl => Some (map (@proj_pose R _ eps4 pl) P)
  end.
(* admissible operations: rigid matrices, or similarities s*R | t with s > 0 flagged as such *)
Definition op_ok (o : opR) : Prop :=
  match o with
  | Transform t rgt propagate sim =>
      if sim then exists r k, SO3 r /\ 0 < k /\ prot t = mscale k r
      else SE3 t
  | _ => True
  end.

(* --- list helpers --- *)
Lemma zip_pose_length qs xs : length qs = length xs -> length (zipR qs xs) = length xs.
Proof. revert xs. induction qs as [|q qs IH]; intros [|x xs] H; cbn in *; try lia; try reflexivity. f_equal. apply IH. lia. Qed.
Lemma zip_pose_ptr qs xs : length qs = length xs -> map ptr (zipR qs xs) = xs.
Proof. revert xs. induction qs as [|q qs IH]; intros [|x xs] H; cbn in *; try lia; try reflexivity. f_equal. apply IH. lia. Qed.
Lemma zip_pose_prot qs xs : length qs = length xs -> map prot (zipR qs xs) = map qmatR qs.
Proof. revert xs. induction qs as [|q qs IH]; intros [|x xs] H; cbn in *; try lia; try reflexivity. f_equal. apply IH. lia. Qed.
Lemma pose_list_ext (a b : list PoseR) : map prot a = map prot b -> map ptr a = map ptr b -> a = b.
Proof.
  revert b. induction a as [|x a IH]; intros [|y b] H1 H2; cbn in *; try discriminate; [reflexivity|].
  injection H1; injection H2; intros. f_equal; [now apply Pose_ext|now apply IH].
Qed.
Lemma select_map {A B} (f : A -> B) (l : list A) ids : select (map f l) ids = option_map (map f) (select l ids).
Proof.
  induction ids as [|i r IH]; cbn; [reflexivity|]. rewrite nth_error_map, IH.
  destruct (nth_error l i); cbn; [|reflexivity]. destruct (select l r); reflexivity.
Qed.
Lemma select_length {A} (l : list A) ids xs : select l ids = Some xs -> length xs = length ids.
Proof.
  revert xs. induction ids as [|i r IH]; cbn; intros xs H; [injection H as <-; reflexivity|].
  destruct (nth_error l i); [|discriminate]. destruct (select l r) as [ys|]; [|discriminate].
  injection H as <-. cbn. now rewrite (IH ys eq_refl).
Qed.
Lemma select_Forall {A} (P : A -> Prop) (l : list A) ids xs : Forall P l -> select l ids = Some xs -> Forall P xs.
Proof.
  intros F. revert xs. induction ids as [|i r IH]; cbn; intros xs H; [injection H as <-; constructor|].
  destruct (nth_error l i) as [x|] eqn:E; [|discriminate]. destruct (select l r) as [ys|]; [|discriminate].
  injection H as <-. constructor; [|now apply IH]. rewrite Forall_forall in F. apply F. eapply nth_error_In; exact E.
Qed.
Lemma select_same_shape {A B} (l : list A) (m : list B) ids xs : length l = length m -> select l ids = Some xs ->
  exists ys, select m ids = Some ys.
Proof.
  intros L. revert xs. induction ids as [|i r IH]; cbn; intros xs H; [now exists []|].
  destruct (nth_error l i) as [x|] eqn:E; [|discriminate]. destruct (select l r) as [zs|]; [|discriminate].
  destruct (IH zs eq_refl) as [ys ->].
  destruct (nth_error m i) as [y|] eqn:E2; [now eexists|].
  apply nth_error_None in E2. assert (i < length l)%nat by (apply nth_error_Some; congruence). lia.
Qed.

(* --- closure of SE(3) under the pose operations --- *)
Lemma SE3_scale_pose k p : SE3 p -> SE3 (scale_pose k p). Proof. exact (fun H => H). Qed.
Lemma SE3_propagate t : SE3 t -> forall ps prev prev_new, SE3 prev -> SE3 prev_new -> Forall SE3 ps ->
  Forall SE3 (propagate_from prev ps prev_new t).
Proof.
  intros Ht. induction ps as [|p r IH]; intros prev prev_new H1 H2 F; cbn; [constructor|].
  inversion F; subst.
  assert (Hn : SE3 (pmul prev_new (pmul (relative_se3 prev p) t))).
  { apply SE3_pmul; [exact H2|]. apply SE3_pmul; [|exact Ht]. apply SE3_pmul; [now apply SE3_pinv|assumption]. }
  constructor; [exact Hn|]. apply IH; assumption.
Qed.
Lemma SE3_transform t rgt propagate (P : list PoseR) : SE3 t -> Forall SE3 P -> Forall SE3 (transform_poses t rgt propagate P).
Proof.
  intros Ht F. unfold transform_poses. destruct rgt; [destruct propagate|].
  - destruct P as [|p0 r]; [constructor|]. inversion F; subst. constructor; [assumption|]. now apply SE3_propagate.
  - rewrite Forall_forall in *. intros q Hq. apply in_map_iff in Hq. destruct Hq as (p & <- & Hp). apply SE3_pmul; auto.
  - rewrite Forall_forall in *. intros q Hq. apply in_map_iff in Hq. destruct Hq as (p & <- & Hp). apply SE3_pmul; auto.
Qed.
Lemma cbrt_unique x k : cbrt x * cbrt x * cbrt x = k * k * k -> cbrt x = k. Proof. apply cube_inj. Qed.
(* renormalising a block k*R (R a rotation, k <> 0) gives R back *)
Lemma renorm_scaled (r : M3R) (v : V3R) k : SO3 r -> k <> 0 -> renormR (mkPose (mscale k r) v) = mkPose r v.
Proof.
  intros [O D] Hk. unfold renorm. rnum. cbn [prot ptr]. rewrite det_mscale, D, Rmult_1_r.
  assert (E : cbrt (k * k * k) = k) by (apply cbrt_unique; apply cbrt_spec). rewrite E.
  rewrite mscale_mscale. replace (1 / k * k) with 1 by (field; exact Hk). now rewrite mscale_1.
Qed.
(* a similarity from the left: positions s*R*p + t, orientations R*R_p *)
Theorem sim_left_effect (r : M3R) (tau : V3R) k (p : PoseR) : SO3 r -> 0 < k -> SE3 p ->
  renormR (pmul (sim3 r tau k) p) = mkPose (mm r (prot p)) (vadd (vscale k (mv r (ptr p))) tau).
Proof.
  intros Hr Hk Hp. unfold pmul, sim3. cbn [prot ptr]. rewrite mm_mscale_l, mv_mscale.
  apply renorm_scaled; [now apply SO3_mm|lra].
Qed.
Theorem sim_right_effect (r : M3R) (tau : V3R) k (p : PoseR) : SO3 r -> 0 < k -> SE3 p ->
  renormR (pmul p (sim3 r tau k)) = mkPose (mm (prot p) r) (vadd (mv (prot p) tau) (ptr p)).
Proof.
  intros Hr Hk Hp. unfold pmul, sim3. cbn [prot ptr]. rewrite mm_mscale_r.
  apply renorm_scaled; [now apply SO3_mm|lra].
Qed.
(* rotation blocks that are a positive multiple of a rotation: closed under products, renormalised to a rotation *)
Definition ScaledRot (m : M3R) : Prop := exists k r, 0 < k /\ SO3 r /\ m = mscale k r.
Lemma ScaledRot_SO3 m : SO3 m -> ScaledRot m.
Proof. intros H. exists 1, m. split; [lra|]. split; [exact H|]. now rewrite mscale_1. Qed.
Lemma ScaledRot_mm a b : ScaledRot a -> ScaledRot b -> ScaledRot (mm a b).
Proof.
  intros (k & r & Hk & Hr & ->) (l & q & Hl & Hq & ->). exists (k * l), (mm r q).
  split; [now apply Rmult_lt_0_compat|]. split; [now apply SO3_mm|].
  rewrite mm_mscale_l, mm_mscale_r, mscale_mscale. reflexivity.
Qed.
Lemma renorm_ScaledRot (p : PoseR) : ScaledRot (prot p) -> SE3 (renormR p).
Proof.
  intros (k & r & Hk & Hr & E). destruct p as [m v]. cbn [prot] in E. subst m.
  rewrite renorm_scaled by (try assumption; lra). exact Hr.
Qed.
Lemma ScaledRot_propagate t : ScaledRot (prot t) -> forall ps prev prev_new, SE3 prev -> ScaledRot (prot prev_new) ->
  Forall SE3 ps -> Forall (fun p => ScaledRot (prot p)) (propagate_from prev ps prev_new t).
Proof.
  intros Ht. induction ps as [|p r IH]; intros prev prev_new H1 H2 F; cbn [propagate_from]; [constructor|].
  inversion F; subst.
  assert (Hn : ScaledRot (prot (pmul prev_new (pmul (relative_se3 prev p) t)))).
  { cbn [pmul prot]. apply ScaledRot_mm; [exact H2|]. apply ScaledRot_mm; [|exact Ht].
    apply ScaledRot_SO3. apply SO3_mm; [now apply SO3_mt|assumption]. }
  constructor; [exact Hn|]. apply IH; assumption.
Qed.
Lemma SE3_sim_transform t rgt propagate (P : list PoseR) r k : SO3 r -> 0 < k -> prot t = mscale k r -> Forall SE3 P ->
  Forall SE3 (map renormR (transform_poses t rgt propagate P)).
Proof.
  intros Hr Hk Et F.
  assert (Ht : ScaledRot (prot t)) by (exists k, r; auto).
  assert (G : Forall (fun p => ScaledRot (prot p)) (transform_poses t rgt propagate P)).
  { unfold transform_poses. destruct rgt; [destruct propagate|].
    - destruct P as [|p0 P0]; [constructor|]. inversion F; subst. constructor; [now apply ScaledRot_SO3|].
      apply ScaledRot_propagate; try assumption. now apply ScaledRot_SO3.
    - rewrite Forall_forall in *. intros q Hq. apply in_map_iff in Hq. destruct Hq as (p & <- & Hp). cbn [pmul prot].
      apply ScaledRot_mm; [apply ScaledRot_SO3; apply F; exact Hp|exact Ht].
    - rewrite Forall_forall in *. intros q Hq. apply in_map_iff in Hq. destruct Hq as (p & <- & Hp). cbn [pmul prot].
      apply ScaledRot_mm; [exact Ht|apply ScaledRot_SO3; apply F; exact Hp]. }
  rewrite Forall_forall in *. intros q Hq. apply in_map_iff in Hq. destruct Hq as (p & <- & Hp). apply renorm_ScaledRot. now apply G.
Qed.

(* --- the invariant in terms of "good caches for a pose list" --- *)
Definition good_pos (P : list PoseR) (o : option (list V3R)) := forall xs, o = Some xs -> xs = map ptr P.
Definition good_quat (P : list PoseR) (o : option (list Q4R)) :=
  forall qs, o = Some qs -> Forall unitq qs /\ map qmatR qs = map prot P.
Definition good_st (P : list PoseR) (o : option (list R)) := forall st, o = Some st -> length st = length P.

Lemma abs_of_poses (s : trajR) ps : t_poses s = Some ps -> absT s = ps.
Proof. intros H. unfold poses_of, rd_poses. now rewrite H, H. Qed.
Lemma abs_of_pq (s : trajR) qs xs : t_poses s = None -> t_quat s = Some qs -> t_pos s = Some xs -> absT s = zipR qs xs.
Proof. intros H1 H2 H3. unfold poses_of, rd_poses. rewrite H1, H2, H3. reflexivity. Qed.
Lemma Inv_intro_poses (s : trajR) P : t_poses s = Some P -> Forall SE3 P ->
  good_pos P (t_pos s) -> good_quat P (t_quat s) -> good_st P (t_stamps s) -> Inv s /\ absT s = P.
Proof.
  intros Hp F G1 G2 G3. pose proof (abs_of_poses s P Hp) as A. split; [|exact A].
  unfold Inv. rewrite A. repeat split; try assumption; try (intros; congruence).
  - exact (proj1 (G2 qs H)).
  - exact (proj2 (G2 qs H)).
Qed.
Lemma Inv_goods (s : trajR) : Inv s ->
  Forall SE3 (absT s) /\ good_pos (absT s) (t_pos s) /\ good_quat (absT s) (t_quat s) /\ good_st (absT s) (t_stamps s).
Proof. intros (F & G1 & G2 & G3 & _). split; [exact F|split; [exact G1|split; [exact G2|exact G3]]]. Qed.
Lemma good_quat_qfm (P : list PoseR) : Forall SE3 P -> good_quat P (Some (map (fun p => qfm (prot p)) P)).
Proof.
  intros F qs E. injection E as <-. split.
  - rewrite Forall_forall in *. intros q Hq. apply in_map_iff in Hq. destruct Hq as (p & <- & Hp).
    apply (qfm_spec (prot p)). apply F; exact Hp.
  - rewrite map_map. apply map_ext_in. intros p Hp. rewrite Forall_forall in F. apply (qfm_spec (prot p)). apply F; exact Hp.
Qed.

Lemma propagate_length t ps prev prev_new : length (@propagate_from R _ prev ps prev_new t) = length ps.
Proof. revert prev prev_new. induction ps as [|p r IH]; intros; cbn; [reflexivity|]. now rewrite IH. Qed.
Lemma transform_length t rgt propagate (P : list PoseR) : length (transform_poses t rgt propagate P) = length P.
Proof.
  unfold transform_poses. destruct rgt; [destruct propagate|]; rewrite ?map_length; try reflexivity.
  destruct P as [|p0 r]; [reflexivity|]. cbn. now rewrite propagate_length.
Qed.
Lemma zip_scale k qs xs : zipR qs (map (vscale k) xs) = map (scale_pose k) (zipR qs xs).
Proof. revert xs. induction qs as [|q qs IH]; intros [|x xs]; cbn; try reflexivity. now rewrite IH. Qed.
Lemma select_zip qs xs ids qs' xs' : length qs = length xs -> select qs ids = Some qs' -> select xs ids = Some xs' ->
  select (zipR qs xs) ids = Some (zipR qs' xs').
Proof.
  intros L. revert qs' xs'. induction ids as [|i r IH]; cbn; intros qs' xs' H1 H2.
  - injection H1 as <-. injection H2 as <-. reflexivity.
  - destruct (nth_error qs i) as [q|] eqn:E1; [|discriminate]. destruct (select qs r) as [qr|]; [|discriminate].
    destruct (nth_error xs i) as [x|] eqn:E2; [|discriminate]. destruct (select xs r) as [xr|]; [|discriminate].
    injection H1 as <-. injection H2 as <-. rewrite (IH qr xr eq_refl eq_refl). cbn.
    assert (E3 : nth_error (zipR qs xs) i = Some (mkPose (qmatR q) x)).
    { clear -L E1 E2. revert xs i L E1 E2. induction qs as [|q0 qs IH]; intros [|x0 xs] i L E1 E2; cbn in *; try lia;
        try (destruct i; discriminate). destruct i as [|i]; cbn in *; [congruence|]. apply IH; [lia|assumption|assumption]. }
    now rewrite E3.
Qed.

(* --- every step preserves the invariant and has exactly its documented effect --- *)
Theorem step_refines (s s' : trajR) (o : opR) : Inv s -> op_ok o -> stepR s o = Some s' ->
  Inv s' /\ spec_step (absT s) o = Some (absT s').
Proof.
  intros I Hok Hs. pose proof (Inv_goods s I) as (F & G1 & G2 & G3). destruct I as (_ & _ & _ & _ & Hnone).
  destruct o; cbn [step spec_step] in *.
  - (* RdPos *) injection Hs as <-. unfold rd_pos.
    destruct (t_pos s) as [xs|] eqn:Ep; [split; [unfold Inv; rewrite ?Ep; repeat split; auto; intros; try congruence; apply G2; auto|reflexivity]|].
    destruct (t_poses s) as [ps|] eqn:Epo.
    + pose proof (abs_of_poses s ps Epo) as A.
      destruct (Inv_intro_poses (mkTraj (Some (map ptr ps)) (t_quat s) (Some ps) (t_stamps s) (t_proj s)) ps eq_refl) as [I' A'];
        try (rewrite <- A; assumption).
      * intros xs E. cbn in E. now injection E as <-.
      * split; [exact I'|]. now rewrite A', A.
    + destruct (Hnone eq_refl) as (xs & qs & E & _). congruence.
  - (* RdQuat *) injection Hs as <-. unfold rd_quat.
    destruct (t_quat s) as [qs|] eqn:Eq; [split; [unfold Inv; rewrite ?Eq; repeat split; auto; intros; try congruence; apply G2; auto|reflexivity]|].
    destruct (t_poses s) as [ps|] eqn:Epo.
    + pose proof (abs_of_poses s ps Epo) as A.
      destruct (Inv_intro_poses (mkTraj (t_pos s) (Some (map (fun p => qfm (prot p)) ps)) (Some ps) (t_stamps s) (t_proj s)) ps eq_refl) as [I' A'];
        try (rewrite <- A; assumption).
      * cbn [t_quat]. apply good_quat_qfm. now rewrite <- A.
      * split; [exact I'|]. now rewrite A', A.
    + destruct (Hnone eq_refl) as (xs & qs & _ & E & _). congruence.
  - (* RdPoses *) injection Hs as <-. unfold rd_poses.
    destruct (t_poses s) as [ps|] eqn:Epo.
    + split; [|reflexivity]. unfold Inv. rewrite Epo. repeat split; auto; intros; try congruence; apply G2; auto.
    + destruct (Hnone eq_refl) as (xs & qs & Ep & Eq & L). rewrite Eq, Ep.
      pose proof (abs_of_pq s qs xs Epo Eq Ep) as A. rewrite Ep in G1. rewrite Eq in G2.
      destruct (Inv_intro_poses (mkTraj (Some xs) (Some qs) (Some (zipR qs xs)) (t_stamps s) (t_proj s)) (zipR qs xs) eq_refl) as [I' A'];
        try (rewrite <- A; assumption).
      split; [exact I'|]. now rewrite A', A.
  - (* Transform *) injection Hs as <-.
    set (P' := transform_poses t rgt propagate (absT s)).
    set (P'' := if sim then map renormR P' else P').
    assert (F' : Forall SE3 P'').
    { unfold P'', P'. destruct sim.
      - destruct Hok as (r & k & Hr & Hk & Et). now apply (SE3_sim_transform t rgt propagate (absT s) r k).
      - now apply SE3_transform. }
    assert (L' : length P'' = length (absT s)).
    { unfold P'', P'. destruct sim; rewrite ?map_length; apply transform_length. }
    destruct (Inv_intro_poses (mkTraj (Some (map ptr P'')) (Some (map (fun p => qfm (prot p)) P'')) (Some P'') (t_stamps s) (t_proj s)) P'' eq_refl F') as [I' A'].
    + intros xs E. cbn in E. now injection E as <-.
    + cbn [t_quat]. now apply good_quat_qfm.
    + intros st E. cbn in E. rewrite L'. now apply G3.
    + split; [exact I'|]. now rewrite A'.
  - (* Scale *) injection Hs as <-.
    destruct (t_poses s) as [ps|] eqn:Epo.
    + pose proof (abs_of_poses s ps Epo) as A. rewrite A in *.
      destruct (Inv_intro_poses (mkTraj (option_map (map (vscale s0)) (t_pos s)) (t_quat s)
                   (option_map (map (fun p => mkPose (prot p) (vscale s0 (ptr p)))) (Some ps)) (t_stamps s) (t_proj s))
                  (map (scale_pose s0) ps) eq_refl) as [I' A'].
      * rewrite Forall_forall in *. intros q Hq. apply in_map_iff in Hq. destruct Hq as (p & <- & Hp). apply (F p Hp).
      * intros xs E. cbn [t_pos] in E. destruct (t_pos s) as [ys|] eqn:Ep; [|discriminate]. cbn in E. injection E as <-.
        rewrite (G1 ys eq_refl), !map_map. reflexivity.
      * intros qs E. cbn [t_quat] in E. destruct (G2 qs E) as [U M]. split; [exact U|]. rewrite M, map_map. reflexivity.
      * intros st E. cbn [t_stamps] in E. rewrite map_length. now apply G3.
      * split; [exact I'|]. now rewrite A'.
    + destruct (Hnone eq_refl) as (xs & qs & Ep & Eq & L). pose proof (abs_of_pq s qs xs Epo Eq Ep) as A. rewrite A in *.
      rewrite Ep. cbn [option_map].
      set (s1 := mkTraj (Some (map (vscale s0) xs)) (t_quat s) None (t_stamps s) (t_proj s)).
      assert (A1 : absT s1 = map (scale_pose s0) (zipR qs xs)).
      { rewrite (abs_of_pq s1 qs (map (vscale s0) xs) eq_refl Eq eq_refl). apply zip_scale. }
      split; [|now rewrite A1].
      unfold Inv. rewrite A1. repeat split.
      * rewrite Forall_forall in *. intros q Hq. apply in_map_iff in Hq. destruct Hq as (p & <- & Hp). apply (F p Hp).
      * intros ys E. cbn in E. injection E as <-. rewrite map_map. cbn [scale_pose ptr].
        rewrite <- (map_map ptr (vscale s0)), zip_pose_ptr by lia. reflexivity.
      * apply (G2 qs0). cbn in H. exact H.
      * cbn in H. destruct (G2 qs0 H) as [_ M]. rewrite M, map_map. reflexivity.
      * intros st E. cbn in E. rewrite map_length. now apply G3.
      * intros _. exists (map (vscale s0) xs), qs. cbn. repeat split; [exact Eq|now rewrite map_length].
  - (* Reduce *)
    destruct (omap (fun l => select l ids) (t_pos s)) as [a|] eqn:Ea; [|discriminate].
    destruct (omap (fun l => select l ids) (t_quat s)) as [b|] eqn:Eb; [|discriminate].
    destruct (omap (fun l => select l ids) (t_poses s)) as [c|] eqn:Ec; [|discriminate].
    destruct (omap (fun l => select l ids) (t_stamps s)) as [d|] eqn:Ed; [|discriminate].
    injection Hs as <-.
    assert (Hst : forall P', select (absT s) ids = Some P' -> good_st P' d).
    { intros P' EP st E. subst d. unfold omap in Ed. destruct (t_stamps s) as [st0|] eqn:Es; [|discriminate].
      destruct (select st0 ids) as [st1|] eqn:E1; [|discriminate]. injection Ed as <-.
      rewrite (select_length _ _ _ E1), (select_length _ _ _ EP). reflexivity. }
    destruct (t_poses s) as [ps|] eqn:Epo.
    + pose proof (abs_of_poses s ps Epo) as A. rewrite A in *. cbn [omap] in Ec.
      destruct (select ps ids) as [ps'|] eqn:Esel; [|discriminate]. injection Ec as <-.
      destruct (Inv_intro_poses (mkTraj a b (Some ps') d (t_proj s)) ps' eq_refl) as [I' A'].
      * now apply (select_Forall SE3 ps ids).
      * intros xs E. cbn in E. subst a. unfold omap in Ea. destruct (t_pos s) as [ys|] eqn:Ep; [|discriminate].
        destruct (select ys ids) as [ys'|] eqn:E1; [|discriminate]. injection Ea as <-.
        rewrite (G1 ys eq_refl), select_map, Esel in E1. cbn in E1. now injection E1 as <-.
      * intros qs E. cbn in E. subst b. unfold omap in Eb. destruct (t_quat s) as [q0|] eqn:Eq; [|discriminate].
        destruct (select q0 ids) as [q0'|] eqn:E1; [|discriminate]. injection Eb as <-.
        destruct (G2 q0 eq_refl) as [U M]. split; [now apply (select_Forall unitq q0 ids)|].
        assert (E2 : select (map qmatR q0) ids = Some (map qmatR q0')) by (rewrite select_map, E1; reflexivity).
        rewrite M, select_map, Esel in E2. cbn in E2. now injection E2 as <-.
      * cbn. now apply Hst.
      * split; [exact I'|]. now rewrite A'.
    + destruct (Hnone eq_refl) as (xs & qs & Ep & Eq & L). pose proof (abs_of_pq s qs xs Epo Eq Ep) as A. rewrite A in *.
      cbn [omap] in Ec. injection Ec as <-. rewrite Ep in Ea. rewrite Eq in Eb. cbn [omap] in Ea, Eb.
      destruct (select xs ids) as [xs'|] eqn:Ex; [|discriminate]. injection Ea as <-.
      destruct (select qs ids) as [qs'|] eqn:Eqs; [|discriminate]. injection Eb as <-.
      pose proof (select_zip qs xs ids qs' xs' (eq_sym L) Eqs Ex) as Ez.
      set (s1 := mkTraj (Some xs') (Some qs') None d (t_proj s)).
      assert (L' : length xs' = length qs') by (rewrite (select_length _ _ _ Ex), (select_length _ _ _ Eqs); reflexivity).
      assert (A1 : absT s1 = zipR qs' xs') by (apply (abs_of_pq s1 qs' xs' eq_refl eq_refl eq_refl)).
      split; [|now rewrite A1].
      pose proof (select_Forall SE3 _ ids _ F Ez) as F'.
      destruct (G2 qs Eq) as [U M].
      unfold Inv. rewrite A1. repeat split.
      * exact F'.
      * intros ys E. cbn in E. injection E as <-. symmetry. apply zip_pose_ptr. lia.
      * cbn in H. injection H as <-. now apply (select_Forall unitq qs ids).
      * cbn in H. injection H as <-. symmetry. apply zip_pose_prot. lia.
      * cbn. now apply Hst.
      * intros _. exists xs', qs'. repeat split. exact L'.
  - (* Project *)
    destruct (t_proj s); [discriminate|]. injection Hs as <-.
    destruct (Inv_intro_poses (mkTraj None None (Some (map (@proj_pose R _ eps4 pl) (absT s))) (t_stamps s) true)
               (map (@proj_pose R _ eps4 pl) (absT s)) eq_refl) as [I' A'].
    + rewrite Forall_forall. intros q Hq. apply in_map_iff in Hq. destruct Hq as (p & <- & _). apply proj_pose_SE3.
    + intros xs E. discriminate.
    + intros qs E. discriminate.
    + intros st E. cbn in E. rewrite map_length. now apply G3.
    + split; [exact I'|]. now rewrite A'.
  - (* Copy *) injection Hs as <-. split; [|reflexivity].
    unfold Inv. repeat split; auto; intros; apply G2; auto.
Qed.

(* --- every finite history --- *)
Fixpoint spec_run (P : list PoseR) (os : list opR) : option (list PoseR) :=
  match os with
  | [] => Some P
  | o :: r => match spec_step P o with Some P' => spec_run P' r | None => None end
  end.
Theorem history_refines (os : list opR) : forall (s s' : trajR), Inv s -> Forall op_ok os -> runR s os = Some s' ->
  Inv s' /\ spec_run (absT s) os = Some (absT s').
Proof.
  induction os as [|o r IH]; intros s s' I Fok H; cbn [run spec_run] in *.
  - injection H as <-. split; [exact I|reflexivity].
  - inversion Fok as [|? ? Hok Fok']; subst.
    destruct (stepR s o) as [s1|] eqn:E; [|discriminate].
    destruct (step_refines s s1 o I Hok E) as [I1 S1]. rewrite S1. now apply IH.
Qed.

(* --- initial states --- *)
Theorem inv_init_from_poses (ps : list PoseR) st : Forall SE3 ps -> (forall l, st = Some l -> length l = length ps) ->
  Inv (init_poses ps st) /\ absT (init_poses ps st) = ps.
Proof.
  intros F Hst. apply (Inv_intro_poses (init_poses ps st) ps eq_refl F).
  - intros xs E; discriminate.
  - intros qs E; discriminate.
  - exact Hst.
Qed.
Theorem inv_init_from_pos_quat (xs : list V3R) (qs : list Q4R) st : length xs = length qs -> Forall unitq qs ->
  (forall l, st = Some l -> length l = length xs) ->
  Inv (init_pos_quat xs qs st) /\ absT (init_pos_quat xs qs st) = zipR qs xs.
Proof.
  intros L U Hst. set (s := init_pos_quat xs qs st).
  assert (A : absT s = zipR qs xs) by (apply (abs_of_pq s qs xs eq_refl eq_refl eq_refl)).
  split; [|exact A]. unfold Inv. rewrite A. repeat split.
  - rewrite Forall_forall. intros p Hp.
    assert (Hr : In (prot p) (map prot (zipR qs xs))) by now apply in_map.
    rewrite zip_pose_prot in Hr by (symmetry; exact L). apply in_map_iff in Hr. destruct Hr as (q & Eq & Hq).
    unfold SE3. rewrite <- Eq. apply qmat_SO3; [destruct eps4_small; lra|]. rewrite Forall_forall in U. now apply U.
  - intros ys E. cbn in E. injection E as <-. symmetry. apply zip_pose_ptr. symmetry; exact L.
  - cbn in H. now injection H as <-.
  - cbn in H. injection H as <-. symmetry. apply zip_pose_prot. symmetry; exact L.
  - intros l E. cbn in E. rewrite zip_pose_length by (symmetry; exact L). now apply Hst.
  - intros _. exists xs, qs. repeat split. exact L.
Qed.

(* --- the documented geometric effects, stated on the abstract pose list --- *)
Theorem effect_left t (P : list PoseR) : transform_poses t false false P = map (pmul t) P.
Proof. reflexivity. Qed.
Theorem effect_right t (P : list PoseR) : transform_poses t true false P = map (fun p => pmul p t) P.
Proof. reflexivity. Qed.
Theorem effect_scale k (p : PoseR) : prot (scale_pose k p) = prot p /\ ptr (scale_pose k p) = vscale k (ptr p).
Proof. split; reflexivity. Qed.
(* propagation keeps the first pose and replaces every relative motion D_i by D_i * T *)
Fixpoint rels (a : PoseR) (l : list PoseR) : list PoseR :=
  match l with [] => [] | b :: r => relative_se3 a b :: rels b r end.
Lemma propagate_rels t : SE3 t -> forall ps prev prev_new, SE3 prev -> SE3 prev_new -> Forall SE3 ps ->
  rels prev_new (propagate_from prev ps prev_new t) = map (fun d => pmul d t) (rels prev ps).
Proof.
  intros Ht. induction ps as [|p r IH]; intros prev prev_new H1 H2 F; cbn [propagate_from rels map]; [reflexivity|].
  inversion F; subst.
  set (nw := pmul prev_new (pmul (relative_se3 prev p) t)).
  assert (Hn : SE3 nw).
  { apply SE3_pmul; [exact H2|]. apply SE3_pmul; [|exact Ht]. apply SE3_pmul; [now apply SE3_pinv|assumption]. }
  f_equal.
  - unfold nw, relative_se3, prel. rewrite <- pmul_assoc, pinv_left by (apply H2). apply pmul_I_l.
  - now apply IH.
Qed.
Theorem effect_propagate t p0 (r : list PoseR) : SE3 t -> Forall SE3 (p0 :: r) ->
  exists r', transform_poses t true true (p0 :: r) = p0 :: r' /\ rels p0 r' = map (fun d => pmul d t) (rels p0 r).
Proof.
  intros Ht F. inversion F; subst. eexists. split; [reflexivity|]. now apply propagate_rels.
Qed.

(* --- projection as an operation of the object: count, order and timestamps stay, a second one is refused --- *)
Theorem project_keeps_stamps_count_order s pl s' : stepR s (Project pl) = Some s' ->
  t_stamps s' = t_stamps s /\ absT s' = map (@proj_pose R _ eps4 pl) (absT s) /\ length (absT s') = length (absT s).
Proof.
  cbn [step]. destruct (t_proj s); [discriminate|]. intros E. apply (f_equal (fun o => match o with Some x => x | None => s end)) in E.
  subst s'. split; [reflexivity|]. split; [reflexivity|]. unfold poses_of at 1. cbn [rd_poses t_poses]. apply map_length.
Qed.
Lemma proj_flag_monotone s o s' : stepR s o = Some s' -> t_proj s = true -> t_proj s' = true.
Proof.
  intros E H. destruct o; cbn [step] in E.
  - apply (f_equal (fun o => match o with Some x => x | None => s end)) in E. subst s'.
    unfold rd_pos. destruct (t_pos s); [exact H|]. destruct (t_poses s); exact H.
  - apply (f_equal (fun o => match o with Some x => x | None => s end)) in E. subst s'.
    unfold rd_quat. destruct (t_quat s); [exact H|]. destruct (t_poses s); exact H.
  - apply (f_equal (fun o => match o with Some x => x | None => s end)) in E. subst s'.
    unfold rd_poses. destruct (t_poses s); [exact H|]. destruct (t_quat s); [|exact H]. destruct (t_pos s); exact H.
  - apply (f_equal (fun o => match o with Some x => x | None => s end)) in E. subst s'. exact H.
  - apply (f_equal (fun o => match o with Some x => x | None => s end)) in E. subst s'. exact H.
  - destruct (omap _ (t_pos s)); [|discriminate]. destruct (omap _ (t_quat s)); [|discriminate].
    destruct (omap _ (t_poses s)); [|discriminate]. destruct (omap _ (t_stamps s)); [|discriminate].
    apply (f_equal (fun o => match o with Some x => x | None => s end)) in E. subst s'. exact H.
  - rewrite H in E. discriminate.
  - apply (f_equal (fun o => match o with Some x => x | None => s end)) in E. subst s'. exact H.
Qed.
Lemma proj_flag_run s ops_ s' : runR s ops_ = Some s' -> t_proj s = true -> t_proj s' = true.
Proof.
  revert s. induction ops_ as [|o r IH]; intros s E H; cbn [run] in E.
  - apply (f_equal (fun o => match o with Some x => x | None => s end)) in E. now subst s'.
  - destruct (stepR s o) as [s1|] eqn:E1; [|discriminate]. apply (IH s1 E). exact (proj_flag_monotone s o s1 E1 H).
Qed.
(* after a projection, whatever else is done to the object (reads, transformations, scaling, reductions, copies),
   every further projection - onto any plane - is refused *)
Theorem second_projection_refused s pl s1 ops_ s2 pl' :
  stepR s (Project pl) = Some s1 -> runR s1 ops_ = Some s2 -> stepR s2 (Project pl') = None.
Proof.
  intros E1 E2. assert (H1 : t_proj s1 = true).
  { cbn [step] in E1. destruct (t_proj s); [discriminate|].
    apply (f_equal (fun o => match o with Some x => x | None => s end)) in E1. now subst s1. }
  cbn [step]. now rewrite (proj_flag_run s1 ops_ s2 E2 H1).
Qed.

(* --- derived quantities follow from the positions --- *)
Lemma step_lengths_length (a : V3R) r : length (@step_lengths R _ (a :: r)) = length r.
Proof. revert a. induction r as [|b r IH]; intros a; [reflexivity|]. change (length (norm (vsub a b) :: @step_lengths R _ (b :: r)) = S (length r)). cbn [length]. now rewrite IH. Qed.
Lemma cumsum_length (acc : R) l : length (@cumsum R _ acc l) = length l.
Proof. revert acc. induction l as [|x l IH]; intros; cbn; [reflexivity|]. now rewrite IH. Qed.
(* one accumulated distance per pose, starting at 0 *)
Theorem distances_spec (a : V3R) r : length (@distances R _ (a :: r)) = length (a :: r) /\ hd 1 (@distances R _ (a :: r)) = 0.
Proof. unfold distances. cbn [length hd]. rewrite cumsum_length, step_lengths_length. split; reflexivity. Qed.
End Machine.


(* ---------- derived quantities under the operations (path length, accumulated distances) ---------- *)
Section Derived.
Definition move_pos (r : M3R) (tau : V3R) (x : V3R) : V3R := vadd (mv r x) tau.
Lemma norm_rigid_diff (r : M3R) (tau a b : V3R) : Orth r ->
  norm (vsub (move_pos r tau a) (move_pos r tau b)) = norm (vsub a b).
Proof.
  intros O. unfold norm, move_pos. rnum. f_equal.
  replace (vsub (vadd (mv r a) tau) (vadd (mv r b) tau)) with (mv r (vsub a b)).
  - now apply nrm2_mv_orth.
  - rewrite mv_vsub. destruct (mv r a), (mv r b), tau; v3eq.
Qed.
(* a rigid motion of the positions (what a left-multiplication by an SE(3) matrix does to them) keeps every step length *)
Theorem step_lengths_rigid_invariant (r : M3R) (tau : V3R) (xs : list V3R) : Orth r ->
  @step_lengths R _ (map (move_pos r tau) xs) = @step_lengths R _ xs.
Proof.
  intros O. induction xs as [|a [|b xs] IH]; [reflexivity|reflexivity|].
  change (norm (vsub (move_pos r tau a) (move_pos r tau b)) :: @step_lengths R _ (map (move_pos r tau) (b :: xs)) =
          norm (vsub a b) :: @step_lengths R _ (b :: xs)).
  now rewrite IH, norm_rigid_diff.
Qed.
Theorem distances_path_length_rigid_invariant (r : M3R) (tau : V3R) (xs : list V3R) : Orth r ->
  @distances R _ (map (move_pos r tau) xs) = @distances R _ xs /\
  @path_length R _ (map (move_pos r tau) xs) = @path_length R _ xs.
Proof. intros O. unfold distances, path_length. now rewrite step_lengths_rigid_invariant. Qed.
Lemma ptr_pmul (t p : PoseR) : ptr (pmul t p) = move_pos (prot t) (ptr t) (ptr p).
Proof. reflexivity. Qed.
(* ... stated on the poses: T*P for every pose, T in SE(3) *)
Theorem left_rigid_transform_keeps_distances (t : PoseR) (P : list PoseR) : SE3 t ->
  @distances R _ (map ptr (transform_poses t false false P)) = @distances R _ (map ptr P) /\
  @path_length R _ (map ptr (transform_poses t false false P)) = @path_length R _ (map ptr P).
Proof.
  intros [O _]. rewrite effect_left, map_map.
  rewrite (map_ext (fun p => ptr (pmul t p)) (fun p => move_pos (prot t) (ptr t) (ptr p))) by (intros; apply ptr_pmul).
  rewrite <- (map_map ptr (move_pos (prot t) (ptr t))). now apply distances_path_length_rigid_invariant.
Qed.
Lemma norm_vscale k (v : V3R) : norm (vscale k v) = Rabs k * norm v.
Proof.
  unfold norm. rnum. replace (nrm2 (vscale k v)) with (k * k * nrm2 v) by (destruct v; lin_unfold; ring).
  rewrite sqrt_mult_alt by nra. f_equal. replace (k * k) with (k²) by reflexivity. apply sqrt_Rsqr_abs.
Qed.
(* scaling multiplies every step length by |k| *)
Theorem step_lengths_scale k (xs : list V3R) :
  @step_lengths R _ (map (vscale k) xs) = map (Rmult (Rabs k)) (@step_lengths R _ xs).
Proof.
  induction xs as [|a [|b xs] IH]; [reflexivity|reflexivity|].
  change (norm (vsub (vscale k a) (vscale k b)) :: @step_lengths R _ (map (vscale k) (b :: xs)) =
          Rabs k * norm (vsub a b) :: map (Rmult (Rabs k)) (@step_lengths R _ (b :: xs))).
  rewrite IH. f_equal. rewrite <- norm_vscale. f_equal. destruct a, b; v3eq.
Qed.
Lemma fold_add_scale c (l : list R) acc : fold_left Rplus (map (Rmult c) l) (c * acc) = c * fold_left Rplus l acc.
Proof. revert acc. induction l as [|x l IH]; intros acc; cbn; [reflexivity|]. rewrite <- IH. f_equal. ring. Qed.
Theorem path_length_scale k (xs : list V3R) : @path_length R _ (map (vscale k) xs) = Rabs k * @path_length R _ xs.
Proof.
  unfold path_length. rnum. rewrite step_lengths_scale. rewrite <- fold_add_scale. f_equal. ring.
Qed.
(* the accumulated distances end at the path length, and never decrease *)
Lemma cumsum_last (acc : R) l d : last (@cumsum R _ acc l) (d) = fold_left Rplus l (if l then d else acc).
Proof.
  revert acc d. induction l as [|x l IH]; intros acc d; [reflexivity|].
  cbn [cumsum]. rnum. destruct l as [|y l]; [cbn; reflexivity|].
  change (last (acc + x :: @cumsum R _ (acc + x) (y :: l)) d) with (last (@cumsum R _ (acc + x) (y :: l)) d).
  rewrite IH. reflexivity.
Qed.
Theorem distances_end_at_path_length (xs : list V3R) : last (@distances R _ xs) 0 = @path_length R _ xs.
Proof.
  unfold distances, path_length. rnum. destruct (@step_lengths R _ xs) as [|x l] eqn:E; [reflexivity|].
  change (last (0 :: @cumsum R _ 0 (x :: l)) 0) with (last (@cumsum R _ 0 (x :: l)) 0).
  now rewrite cumsum_last.
Qed.
Lemma step_lengths_nonneg (xs : list V3R) : Forall (fun d => 0 <= d) (@step_lengths R _ xs).
Proof.
  induction xs as [|a [|b xs] IH]; [constructor|constructor|].
  change (Forall (fun d => 0 <= d) (norm (vsub a b) :: @step_lengths R _ (b :: xs))).
  constructor; [unfold norm; rnum; apply sqrt_pos|exact IH].
Qed.
Fixpoint nondecreasing_from (a : R) (l : list R) : Prop :=
  match l with [] => True | x :: r => a <= x /\ nondecreasing_from x r end.
Lemma cumsum_nondecreasing acc l : Forall (fun d => 0 <= d) l -> nondecreasing_from acc (@cumsum R _ acc l).
Proof.
  revert acc. induction l as [|x l IH]; intros acc H; [exact I|]. inversion H as [|? ? Hx Hl]; subst.
  cbn [cumsum nondecreasing_from]. rnum. split; [lra|now apply IH].
Qed.
Theorem distances_nondecreasing (xs : list V3R) : nondecreasing_from 0 (@cumsum R _ 0 (@step_lengths R _ xs)).
Proof. apply cumsum_nondecreasing, step_lengths_nonneg. Qed.
End Derived.


(* ---------- the position map of a projection is linear and a contraction: no step gets longer, so accumulated
   distances and the path length never grow under projection ---------- *)
Lemma proj_pos_vsub pl (a b : V3R) : vsub (@proj_pos R _ pl a) (proj_pos pl b) = proj_pos pl (vsub a b).
Proof. destruct pl, a, b; cbn [proj_pos]; v3eq. Qed.
Lemma nrm2_proj_pos_le pl (v : V3R) : nrm2 (@proj_pos R _ pl v) <= nrm2 v.
Proof. destruct pl, v as [x y z]; cbn [proj_pos]; lin_unfold; rnum; nra. Qed.
Theorem proj_pos_contraction pl (a b : V3R) :
  norm (vsub (@proj_pos R _ pl a) (proj_pos pl b)) <= norm (vsub a b).
Proof. rewrite proj_pos_vsub. unfold norm. rnum. apply sqrt_le_1_alt, nrm2_proj_pos_le. Qed.
Theorem step_lengths_projection_le pl (xs : list V3R) :
  Forall2 Rle (@step_lengths R _ (map (proj_pos pl) xs)) (@step_lengths R _ xs).
Proof.
  induction xs as [|a [|b xs] IH]; [constructor|constructor|].
  change (Forall2 Rle (norm (vsub (@proj_pos R _ pl a) (proj_pos pl b)) :: @step_lengths R _ (map (proj_pos pl) (b :: xs)))
                      (norm (vsub a b) :: @step_lengths R _ (b :: xs))).
  constructor; [apply proj_pos_contraction|exact IH].
Qed.
Lemma fold_add_le (l l' : list R) : Forall2 Rle l l' -> forall a a', a <= a' -> fold_left Rplus l a <= fold_left Rplus l' a'.
Proof. induction 1 as [|x y l l' Hxy _ IH]; intros a a' Ha; cbn [fold_left]; [exact Ha|]. apply IH. lra. Qed.
Theorem path_length_projection_le pl (xs : list V3R) :
  @path_length R _ (map (proj_pos pl) xs) <= @path_length R _ xs.
Proof. unfold path_length. rnum. apply fold_add_le; [apply step_lengths_projection_le|lra]. Qed.
(* and a trajectory that already lies in the plane keeps every position *)
Theorem proj_pos_fixes_in_plane pl (v : V3R) :
  match pl with XY => vz v = 0 | XZ => vy v = 0 | YZ => vx v = 0 end -> @proj_pos R _ pl v = v.
Proof. destruct pl, v as [x y z]; cbn [proj_pos vx vy vz]; intros ->; reflexivity. Qed.
