From Coq Require Import Reals Lra Lia List.
Import ListNotations.
Local Open Scope R_scope.
Definition ltb (a b : R) := if Rlt_dec a b then true else false.
Definition leb (a b : R) := if Rle_dec a b then true else false.
Fixpoint argmin_aux (best : nat) (bv : R) (i : nat) (l : list R) : nat * R :=
  match l with [] => (best,bv) | x :: r => if ltb x bv then argmin_aux i x (S i) r else argmin_aux best bv (S i) r end.
Definition argmin (l : list R) : nat * R := match l with [] => (O, 0) | x :: r => argmin_aux O x 1 r end.

Lemma argmin_aux_spec : forall l best bv i (pre : list R),
  length pre = i -> (best < i)%nat -> nth best pre 0 = bv -> (forall k, (k < i)%nat -> bv <= nth k pre 0) ->
  let '(j,v) := argmin_aux best bv i l in
  (j < i + length l)%nat /\ nth j (pre ++ l) 0 = v /\ forall k, (k < i + length l)%nat -> v <= nth k (pre ++ l) 0.
Proof.
  induction l as [|x r IH]; intros best bv i pre Hlen Hb Hnth Hmin; cbn [argmin_aux].
  - rewrite app_nil_r, Nat.add_0_r. auto.
  - unfold ltb. destruct (Rlt_dec x bv) as [L|L].
    + specialize (IH i x (S i) (pre ++ [x])).
      rewrite app_length in IH. cbn [length] in IH.
      assert (H1 : (length pre + 1 = S i)%nat) by lia.
      assert (H2 : (i < S i)%nat) by lia.
      assert (H3 : nth i (pre ++ [x]) 0 = x) by (rewrite app_nth2 by lia; rewrite Hlen, Nat.sub_diag; reflexivity).
      assert (H4 : forall k, (k < S i)%nat -> x <= nth k (pre ++ [x]) 0).
      { intros k Hk. destruct (Nat.eq_dec k i) as [->|Ne]; [rewrite H3; lra|].
        rewrite app_nth1 by lia. specialize (Hmin k ltac:(lia)). lra. }
      specialize (IH H1 H2 H3 H4). destruct (argmin_aux i x (S i) r) as [j v].
      rewrite <- app_assoc in IH. cbn [app] in IH. cbn [length]. replace (i + S (length r))%nat with (S i + length r)%nat by lia. exact IH.
    + specialize (IH best bv (S i) (pre ++ [x])).
      rewrite app_length in IH. cbn [length] in IH.
      assert (H1 : (length pre + 1 = S i)%nat) by lia.
      assert (H2 : (best < S i)%nat) by lia.
      assert (H3 : nth best (pre ++ [x]) 0 = bv) by (rewrite app_nth1 by lia; exact Hnth).
      assert (H4 : forall k, (k < S i)%nat -> bv <= nth k (pre ++ [x]) 0).
      { intros k Hk. destruct (Nat.eq_dec k i) as [->|Ne].
        - rewrite app_nth2 by lia. rewrite Hlen, Nat.sub_diag. cbn. lra.
        - rewrite app_nth1 by lia. apply Hmin. lia. }
      specialize (IH H1 H2 H3 H4). destruct (argmin_aux best bv (S i) r) as [j v].
      rewrite <- app_assoc in IH. cbn [app] in IH. cbn [length]. replace (i + S (length r))%nat with (S i + length r)%nat by lia. exact IH.
Qed.
