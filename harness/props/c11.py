"""C11 - sub-sampling, cropping, splitting, merging (evo/core/trajectory.py, filters.filter_by_motion)
against the Coq model Evo.Subsample.

Every operation's discrete outcome (which input poses are kept / how they are grouped / in which order they are
merged) must equal the model's; in addition every output pose must carry the timestamp, position, orientation
and pose matrix of ONE input pose (bit-for-bit). Arithmetic behind the decisions: accumulated distances, time
differences and the linspace indices are bit-exact with the model; the speed criterion uses single-vector norms
(BLAS) and is excused only when the model's relative margin is < 1e-9 (counted as fragile).
Oracles: rotation angles (the implementation's own so3_log_angle(relative_so3(.)) values, keyed by the pair of
rotation matrices) and numpy's argsort (validated by the proven checker is_argsort_b on every merge case).
"""
import itertools
import math

import numpy as np

from harness.common import cf, cflist, cnat, cnatlist, cz, differential, hexf, unhex

ID = "C11"
IMPORTS = "From Evo Require Import Num Linalg Filters Subsample SubsampleRun.\n"
COQ_TARGETS = ["theories/SubsampleProofs.vo", "theories/SubsampleRun.vo"]
TRUSTED = [
    "model Evo.Subsample written by hand from evo/core/trajectory.py (downsample, motion_filter, reduce_to_time_range, "
    "split_time_gaps, split_distance_gaps, split_speed_outliers, merge, reduce_to_ids) and filters.filter_by_motion; "
    "tie = differential run (kept indices / parts / merge order must be equal, poses bit-identical)",
    "angle oracle: lie.so3_log_angle(lie.relative_so3(Rp, Ri)) as computed by the implementation, recorded per case "
    "(full table for small inputs, the calls actually made for large ones), keyed by the pair of rotation matrices, "
    "validated against cos(angle) = (trace(Rp^T Ri) - 1)/2",
    "argsort oracle: numpy's argsort of the concatenated stamps, checked on every case by is_argsort_b "
    "(C11_argsort_checker_sound)",
    "numpy.linspace(0, n-1, N, dtype=int) = floor(arange(N) * ((n-1)/(N-1))) with the last entry n-1 (measured "
    "bit-exactly on every case; proved evenly spaced for n <= 300 by enumeration inside Coq)",
    "an independent Python restatement of the property text (spec_check) is run on every implementation output",
]
ASSUMPTIONS = ["timestamps finite and, where the operation needs speeds, strictly increasing (else the refusal is modelled)",
               "poses are SE(3) matrices; thresholds finite"]


# ------------------------------------------------------------------ building trajectories
def _rot(spec):
    from scipy.spatial.transform import Rotation
    if spec[0] == "q":
        k = int(spec[1]) % 4
        c, s = [(1, 0), (0, 1), (-1, 0), (0, -1)][k]
        return np.array([[c, -s, 0.0], [s, c, 0.0], [0.0, 0.0, 1.0]])
    if spec[0] == "z":
        a = unhex(spec[1])
        c, s = math.cos(a), math.sin(a)
        return np.array([[c, -s, 0.0], [s, c, 0.0], [0.0, 0.0, 1.0]])
    return Rotation.from_rotvec([unhex(x) for x in spec[1:4]]).as_matrix()


def make_traj(pos, stamps, rot=None, tag0=0):
    """PoseTrajectory3D from pose matrices; all per-pose views are materialised so that they must stay consistent"""
    from evo.core.trajectory import PoseTrajectory3D
    poses = []
    for k, p in enumerate(pos):
        m = np.eye(4)
        m[:3, :3] = _rot(rot[k]) if rot is not None else _rot(["z", hexf(0.001 * (tag0 + k + 1))])
        m[:3, 3] = p
        poses.append(m)
    t = PoseTrajectory3D(poses_se3=poses, timestamps=np.array(stamps, dtype=float))
    _ = t.positions_xyz, t.orientations_quat_wxyz
    return t


def snapshot(t):
    return {"stamps": [float(x) for x in t.timestamps],
            "key": {(np.float64(s).tobytes(), t.positions_xyz[k].tobytes()): k for k, s in enumerate(t.timestamps)},
            "xyz": [t.positions_xyz[k].tobytes() for k in range(t.num_poses)],
            "quat": [t.orientations_quat_wxyz[k].tobytes() for k in range(t.num_poses)],
            "se3": [t.poses_se3[k].tobytes() for k in range(t.num_poses)]}


def identify(out, snap, check_se3=True):
    """index of the input pose each output pose is (by stamp and position), and whether orientation / matrix agree"""
    ids, together = [], True
    if not (len(out.timestamps) == out.positions_xyz.shape[0] == out.orientations_quat_wxyz.shape[0]
            == len(out.poses_se3) == out.num_poses):
        return [-1], False
    for k in range(out.num_poses):
        i = snap["key"].get((np.float64(out.timestamps[k]).tobytes(), out.positions_xyz[k].tobytes()), -1)
        ids.append(i)
        if i < 0:
            together = False
            continue
        if out.orientations_quat_wxyz[k].tobytes() != snap["quat"][i]:
            together = False
        if check_se3 and out.poses_se3[k].tobytes() != snap["se3"][i]:
            together = False
    return ids, together


def default_pos(n, tag0=0):
    return [[float(tag0 + k), 0.5 * (tag0 + k), -float(tag0 + k)] for k in range(n)]


# ------------------------------------------------------------------ angle oracle
def rot_classes(traj):
    cls, seen = [], {}
    for p in traj.poses_se3:
        b = p[:3, :3].tobytes()
        cls.append(seen.setdefault(b, len(seen)))
    return cls, seen


def _angle_ok(r1, r2, ang):
    c = (np.trace(r1.T @ r2) - 1.0) / 2.0
    return abs(math.cos(ang) - max(-1.0, min(1.0, c))) <= 1e-9 and -1e-12 <= ang <= math.pi + 1e-9


def full_angle_table(traj):
    from evo.core import lie_algebra as lie
    cls, seen = rot_classes(traj)
    reps = {}
    for k, c in enumerate(cls):
        reps.setdefault(c, k)
    tab, ok = [], True
    for a, ka in reps.items():
        for b, kb in reps.items():
            r1, r2 = traj.poses_se3[ka][:3, :3], traj.poses_se3[kb][:3, :3]
            ang = lie.so3_log_angle(lie.relative_so3(r1, r2))
            ok = ok and _angle_ok(r1, r2, ang)
            tab.append([a, b, hexf(ang)])
    return cls, tab, ok


class AngleTape:
    """records the (relative_so3, so3_log_angle) calls made by filter_by_motion"""

    def __init__(self, traj):
        from evo.core import lie_algebra as lie
        self.lie = lie
        self.cls, self.seen = rot_classes(traj)
        self.tab, self.ok, self.pending = {}, True, None

    def __enter__(self):
        lie = self.lie
        self.o_rel, self.o_ang = lie.relative_so3, lie.so3_log_angle

        def rel(r1, r2):
            self.pending = (np.array(r1), np.array(r2))
            return self.o_rel(r1, r2)

        def ang(r, degrees=False):
            a = self.o_ang(r, degrees)
            if self.pending is not None and not degrees:
                r1, r2 = self.pending
                c1, c2 = self.seen.get(r1.tobytes()), self.seen.get(r2.tobytes())
                if c1 is None or c2 is None:
                    self.ok = False
                else:
                    self.tab[(c1, c2)] = a
                    self.ok = self.ok and _angle_ok(r1, r2, a)
            self.pending = None
            return a
        lie.relative_so3, lie.so3_log_angle = rel, ang
        return self

    def __exit__(self, *exc):
        self.lie.relative_so3, self.lie.so3_log_angle = self.o_rel, self.o_ang
        return False


# ------------------------------------------------------------------ implementation runner
def impl(case):
    import copy
    from evo.core import trajectory, filters
    kind = case["kind"]
    out = {}
    try:
        if kind == "downsample":
            n, N = case["n"], case["N"]
            t = make_traj(default_pos(n), [float(k) for k in range(n)])
            snap = snapshot(t)
            try:
                t.downsample(N)
            except trajectory.TrajectoryException:
                out["error"] = "TrajectoryException"
                ids, tog = identify(t, snap)
                out["unchanged_on_error"] = ids == list(range(n)) and tog
                return out
            out["ids"], out["together"] = identify(t, snap)
            return out
        if kind == "motion":
            pos = [[unhex(x) for x in p] for p in case["pos"]]
            n = len(pos)
            t = make_traj(pos, [float(k) for k in range(n)], rot=case["rot"])
            snap = snapshot(t)
            dthr, athr, deg = unhex(case["dthr"]), unhex(case["athr"]), bool(case["degrees"])
            if n <= 30:
                out["cls"], out["tab"], out["oracle_ok"] = full_angle_table(t)
                out["full_table"] = True
                try:
                    t.motion_filter(dthr, athr, deg)
                except filters.FilterException:
                    out["error"] = "FilterException"
                    return out
            else:
                with AngleTape(t) as tape:
                    try:
                        t.motion_filter(dthr, athr, deg)
                    except filters.FilterException:
                        out["error"] = "FilterException"
                out["cls"] = tape.cls
                out["tab"] = [[a, b, hexf(v)] for (a, b), v in tape.tab.items()]
                out["oracle_ok"] = tape.ok
                out["full_table"] = False
                if "error" in out:
                    return out
            out["ids"], out["together"] = identify(t, snap)
            return out
        if kind == "crop":
            ts = [unhex(x) for x in case["ts"]]
            t = make_traj(default_pos(len(ts)), ts)
            snap = snapshot(t)
            s = None if case["start"] is None else unhex(case["start"])
            e = None if case["end"] is None else unhex(case["end"])
            try:
                t.reduce_to_time_range(s, e)
            except trajectory.TrajectoryException:
                out["error"] = "TrajectoryException"
                ids, tog = identify(t, snap)
                out["unchanged_on_error"] = ids == list(range(len(ts))) and tog
                return out
            out["ids"], out["together"] = identify(t, snap)
            return out
        if kind in ("split_time", "split_dist", "split_speed"):
            ts = [unhex(x) for x in case["ts"]]
            pos = [[unhex(x) for x in p] for p in case["pos"]] if "pos" in case else default_pos(len(ts))
            if len(ts) >= 1 and (len(ts) + len(case.get("thr", ""))) % 2 == 0:
                # same trajectory reached through a history: one extra leading pose, every derived quantity read
                # (so that any cache of them is filled), then the extra pose is dropped again
                t = make_traj([[p + 7.0 for p in pos[0]]] + pos, [ts[0] - 1.0] + ts)
                t.distances, t.path_length, t.positions_xyz, t.orientations_quat_wxyz, t.poses_se3
                if len(ts) >= 1:
                    try:
                        t.speeds
                    except trajectory.TrajectoryException:
                        pass
                t.reduce_to_ids(list(range(1, len(ts) + 1)))
            else:
                t = make_traj(pos, ts)
            snap = snapshot(t)
            before = copy.deepcopy(snap["se3"])
            thr = unhex(case["thr"])
            try:
                if kind == "split_time":
                    parts = t.split_time_gaps(thr)
                elif kind == "split_dist":
                    parts = t.split_distance_gaps(thr)
                else:
                    parts = t.split_speed_outliers(thr)
            except trajectory.TrajectoryException:
                out["error"] = "TrajectoryException"
                return out
            out["parts"], out["together"] = [], True
            for p in parts:
                ids, tog = identify(p, snap)
                out["parts"].append(ids)
                out["together"] = out["together"] and tog and isinstance(p, trajectory.PoseTrajectory3D)
            out["input_unchanged"] = snapshot(t)["se3"] == before
            return out
        if kind == "merge":
            trajs, snaps, tag0 = [], [], 0
            for st in case["trajs"]:
                ts = [unhex(x) for x in st]
                t = make_traj(default_pos(len(ts), tag0), ts, tag0=tag0)
                trajs.append(t)
                tag0 += len(ts)
            allstamps = np.concatenate([t.timestamps for t in trajs])
            allxyz = np.concatenate([t.positions_xyz for t in trajs])
            allquat = np.concatenate([t.orientations_quat_wxyz for t in trajs])
            xkey = {allxyz[k].tobytes(): k for k in range(len(allxyz))}
            qkey = {allquat[k].tobytes(): k for k in range(len(allquat))}
            out["order"] = [int(i) for i in allstamps.argsort()]
            m = trajectory.merge(trajs)
            out["stamps"] = [hexf(x) for x in m.timestamps]
            out["xyz_tags"] = [xkey.get(m.positions_xyz[k].tobytes(), -1) for k in range(m.num_poses)]
            out["quat_tags"] = [qkey.get(m.orientations_quat_wxyz[k].tobytes(), -1) for k in range(m.num_poses)]
            out["lens_ok"] = len(m.timestamps) == m.positions_xyz.shape[0] == m.orientations_quat_wxyz.shape[0]
            out["inputs_unchanged"] = all(
                np.array_equal(t.timestamps, np.array([unhex(x) for x in st])) for t, st in zip(trajs, case["trajs"]))
            return out
    except Exception as e:  # noqa
        import traceback
        out["error"] = "unexpected " + type(e).__name__ + ": " + str(e)[:200] + traceback.format_exc()[-300:]
        return out
    raise ValueError(kind)


# ------------------------------------------------------------------ model side
def _v3list(pos):
    return "[" + "; ".join("mkV3 %s %s %s" % (cf(unhex(x)), cf(unhex(y)), cf(unhex(z))) for x, y, z in pos) + "]"


def _default_v3(n):
    return "[" + "; ".join("mkV3 %s %s %s" % (cf(p[0]), cf(p[1]), cf(p[2])) for p in default_pos(n)) + "]"


def _opt(x):
    return "None" if x is None else "(Some %s)" % cf(unhex(x))


def _zl(xs):
    return "[" + "; ".join(cz(x) for x in xs) + "]"


def _impl_ids(out):
    """the implementation's kept indices as a Coq term: option (list Z)"""
    if out.get("error") or "ids" not in out:
        return "None"
    return "(Some %s)" % _zl(out["ids"])


def expr(case, out):
    """(report, extra): report = None when the model's value equals the implementation's (compared inside Coq),
    Some model_value otherwise; extra = decision margin / oracle verdict"""
    kind = case["kind"]
    if kind == "downsample":
        return "(report_zids (downsample_z %s %s) %s, 1)" % (cz(case["n"]), cz(case["N"]), _impl_ids(out))
    if kind == "motion":
        cls = "[" + "; ".join(cz(c) for c in out.get("cls", [])) + "]"
        ncls = (max(out["cls"]) + 1) if out.get("cls") else 0
        rows = [[] for _ in range(ncls)]
        for a, b, v in out.get("tab", []):
            rows[b].append("(%s, %s)" % (cz(a), cf(unhex(v))))
        tab = "[" + "; ".join("[" + "; ".join(r) + "]" for r in rows) + "]"
        return "(report_ids (motion_ids pi_f %s (class_ang %s %s %s) %s %s %s) %s, 1)" % (
            _v3list(case["pos"]), cls, tab, cf(-1.0), cf(unhex(case["dthr"])), cf(unhex(case["athr"])),
            "true" if case["degrees"] else "false", _impl_ids(out))
    if kind == "crop":
        return "(report_ids (crop_ids %s %s %s) %s, 1)" % (
            cflist(unhex(x) for x in case["ts"]), _opt(case["start"]), _opt(case["end"]), _impl_ids(out))
    if kind.startswith("split"):
        n = len(case["ts"])
        got = "None" if (out.get("error") or "parts" not in out) else "(Some [%s])" % "; ".join(_zl(p) for p in out["parts"])
        thr = cf(unhex(case["thr"]))
        if kind == "split_time":
            m = "Some (split_slices (time_gap_flags %s %s) (seq 0 %s))" % (thr, cflist(unhex(x) for x in case["ts"]), cnat(n))
            return "(report_parts (%s) %s, 1)" % (m, got)
        if kind == "split_dist":
            m = "Some (split_slices (dist_gap_flags %s %s) (seq 0 %s))" % (thr, _v3list(case["pos"]), cnat(n))
            return "(report_parts (%s) %s, 1)" % (m, got)
        ps, ts = _v3list(case["pos"]), cflist(unhex(x) for x in case["ts"])
        margin = "1" if case.get("exact") else "speed_margin %s %s %s" % (thr, ps, ts)
        return "(report_parts (split_speed %s %s %s (seq 0 %s)) %s, %s)" % (thr, ps, ts, cnat(n), got, margin)
    if kind == "merge":
        stamps = [unhex(x) for st in case["trajs"] for x in st]
        tags = _zl(range(len(stamps)))
        order = _zl(out.get("order", []))
        inv = _zl(int(i) for i in np.argsort(np.array(out.get("order", []), dtype=int), kind="stable"))
        got = "(%s, %s, %s)" % (cflist(unhex(x) for x in out.get("stamps", [])), _zl(out.get("xyz_tags", [])),
                                _zl(out.get("quat_tags", [])))
        return "(report_merge (merge3 0 0%%Z 0%%Z (ns %s) %s %s %s) %s, is_argsort_b %s (ns %s) (ns %s))" % (
            order, cflist(stamps), tags, tags, got, cflist(stamps), order, inv)
    raise ValueError(kind)


# ------------------------------------------------------------------ the property text, restated independently
def spec_check(case, out):
    kind = case["kind"]
    err = out.get("error")
    if err and err.startswith("unexpected"):
        return err
    if out.get("together") is False:
        return "an output pose does not carry the timestamp, position, orientation and pose matrix of one input pose"
    if kind == "downsample":
        n, N = case["n"], case["N"]
        if err:
            if N < 1 and n > N:
                return None if out.get("unchanged_on_error") else "trajectory modified although the call was refused"
            return "refused although %d poses can be down-sampled to %d" % (n, N)
        ids = out["ids"]
        if len(ids) != min(N, n):
            return "kept %d poses instead of min(N, count) = %d" % (len(ids), min(N, n))
        if ids[0] != 0:
            return "first pose not kept"
        if N >= 2 and ids[-1] != n - 1:
            return "last pose not kept"
        if any(b <= a for a, b in zip(ids, ids[1:])):
            return "kept indices not strictly increasing"
        if N >= 2 and n > N:
            lo, exact = (n - 1) // (N - 1), (n - 1) % (N - 1) == 0
            for a, b in zip(ids, ids[1:]):
                if not (b - a == lo or (b - a == lo + 1 and not exact)):
                    return "not evenly spaced: gap %d between kept indices %d and %d, expected %d%s" % (
                        b - a, a, b, lo, "" if exact else " or %d" % (lo + 1))
        return None
    if kind == "motion":
        n = len(case["pos"])
        dthr, athr = unhex(case["dthr"]), unhex(case["athr"])
        if err:
            return None if (n < 2 or dthr < 0 or athr < 0) else "refused a valid motion filter request"
        ids = out["ids"]
        if not ids or ids[0] != 0:
            return "first pose not kept"
        if any(b <= a for a, b in zip(ids, ids[1:])):
            return "kept indices not strictly increasing"
        a_thr = athr * (math.pi / 180) if case["degrees"] else athr
        pos = np.array([[unhex(x) for x in p] for p in case["pos"]])
        D = np.concatenate(([0.0], np.cumsum(np.sqrt((pos[:-1, 0] - pos[1:, 0]) ** 2 + (pos[:-1, 1] - pos[1:, 1]) ** 2
                                                       + (pos[:-1, 2] - pos[1:, 2]) ** 2))))
        cls = out["cls"]
        tab = {(a, b): unhex(v) for a, b, v in out["tab"]}
        kept, last = set(ids), 0
        for j in range(1, n):
            by_dist = (D[j] - D[last]) >= dthr
            ang = tab.get((cls[last], cls[j]))
            if by_dist:
                want = True
            elif ang is None:
                want = None      # the angle of this pair was never computed by the implementation
            else:
                want = ang >= a_thr
            if want is True and j not in kept:
                return "pose %d dropped although %s since the last kept pose %d" % (
                    j, "the path length reached the threshold" if by_dist else "the rotation angle reached the threshold", last)
            if want is False and j in kept:
                return "pose %d kept although neither threshold was reached since the last kept pose %d" % (j, last)
            if j in kept:
                last = j
        return None
    if kind == "crop":
        ts = [unhex(x) for x in case["ts"]]
        s = ts[0] if case["start"] is None else unhex(case["start"])
        e = ts[-1] if case["end"] is None else unhex(case["end"])
        if err:
            if s > e:
                return None if out.get("unchanged_on_error") else "trajectory modified although the call was refused"
            return "refused a valid time range"
        want = [i for i, t in enumerate(ts) if s <= t <= e]
        if out["ids"] != want:
            return "kept poses are not exactly those with start <= t <= end (expected %r...)" % (want[:12],)
        return None
    if kind.startswith("split"):
        ts = [unhex(x) for x in case["ts"]]
        n, thr = len(ts), unhex(case["thr"])
        if kind == "split_speed" and n >= 2 and any(b - a <= 0 for a, b in zip(ts, ts[1:])):
            return None if err else "speeds computed from non-increasing timestamps"
        if err:
            return "split refused"
        if out.get("input_unchanged") is False:
            return "the trajectory being split was modified"
        parts = out["parts"]
        flat = [i for p in parts for i in p]
        if flat != list(range(n)):
            return "concatenating the parts does not reproduce the trajectory"
        if any(len(p) == 0 for p in parts):
            return "empty part"
        eps = 0.0
        if kind == "split_time":
            step = [b - a for a, b in zip(ts, ts[1:])]
        else:
            pos = np.array([[unhex(x) for x in p] for p in case["pos"]])
            d = [math.sqrt(float(((pos[k] - pos[k + 1]) ** 2) @ np.ones(3))) for k in range(n - 1)]
            d = [math.sqrt((pos[k][0] - pos[k + 1][0]) ** 2 + (pos[k][1] - pos[k + 1][1]) ** 2
                           + (pos[k][2] - pos[k + 1][2]) ** 2) for k in range(n - 1)]
            if kind == "split_dist":
                step = d
                eps = 0.0 if case.get("exact") else 1e-9     # the code thresholds D[k+1] - D[k], not the step itself
            else:
                step = [x / (b - a) for x, a, b in zip(d, ts, ts[1:])]
                eps = 0.0 if case.get("exact") else 1e-9
        cuts = set(itertools.accumulate(len(p) for p in parts[:-1]))   # a cut before index c
        for k in range(n - 1):
            if abs(step[k] - thr) <= eps * max(abs(step[k]), abs(thr), 1.0) and eps > 0:
                continue
            if step[k] > thr and (k + 1) not in cuts:
                return "step %d -> %d exceeds the threshold but lies inside a part" % (k, k + 1)
            if not step[k] > thr and (k + 1) in cuts:
                return "cut at step %d -> %d which does not exceed the threshold" % (k, k + 1)
        return None
    if kind == "merge":
        if err:
            return "merge failed: " + err
        stamps = [unhex(x) for st in case["trajs"] for x in st]
        got = [unhex(x) for x in out["stamps"]]
        if not out.get("lens_ok") or len(got) != len(stamps):
            return "merged trajectory does not have one stamp/position/orientation per input pose"
        if any(b < a for a, b in zip(got, got[1:])):
            return "merged timestamps are not sorted"
        if out["xyz_tags"] != out["quat_tags"]:
            return "a merged pose has the position of one input pose and the orientation of another"
        if sorted(out["xyz_tags"]) != list(range(len(stamps))):
            return "merged poses are not exactly the union of the input poses"
        for k, tg in enumerate(out["xyz_tags"]):
            if np.float64(stamps[tg]).tobytes() != np.float64(got[k]).tobytes():
                return "merged pose %d (input pose %d) does not keep its own timestamp" % (k, tg)
        if not out.get("inputs_unchanged"):
            return "an input trajectory was modified"
        return None
    return None


# ------------------------------------------------------------------ judge
FRAGILE = [0]


def judge(case, val, out):
    kind = case["kind"]
    rep, extra = val
    if out.get("oracle_ok") is False:
        return {"kind": "model-vs-impl", "failing_input": False, "correspondence": "Subsample angle oracle",
                "detail": "an oracle angle does not satisfy cos(angle) = (trace - 1)/2, or an unexpected matrix was queried"}
    msg = spec_check(case, out)
    if msg is not None:
        return {"kind": "spec-violation", "failing_input": True, "detail": msg}
    if kind == "merge" and extra is not True:
        return {"kind": "model-vs-impl", "failing_input": False, "correspondence": "argsort oracle",
                "detail": "numpy's argsort answer rejected by is_argsort_b"}
    if rep is None:          # compared inside Coq: the model's value equals the implementation's
        return None
    if kind == "split_speed" and isinstance(extra, (int, float)) and not isinstance(extra, bool) and extra < 1e-9 \
            and not case.get("exact"):
        FRAGILE[0] += 1
        return None
    return {"kind": "model-vs-impl", "failing_input": False, "correspondence": "Subsample." + kind,
            "detail": "kept indices / parts / merge order differ from the model although the restated property accepts them"}


def nontrivial(case, val, out):
    k = case["kind"]
    if k == "downsample":
        return 1 < case["N"] < case["n"]
    if k == "motion":
        return 1 < len(out.get("ids", [])) < len(case["pos"])
    if k == "crop":
        return 0 < len(out.get("ids", [])) < len(case["ts"])
    if k.startswith("split"):
        return len(out.get("parts", [])) >= 2
    return len(case["trajs"]) >= 2


def shrink(case):
    k = case["kind"]
    if k == "downsample":
        if case["n"] > 2:
            for n in (case["n"] // 2, case["n"] - 1):
                yield dict(case, n=n)
        if case["N"] > 1:
            yield dict(case, N=case["N"] - 1)
        return
    if k == "merge":
        for i in range(len(case["trajs"])):
            if len(case["trajs"]) > 1:
                yield dict(case, trajs=case["trajs"][:i] + case["trajs"][i + 1:])
            st = case["trajs"][i]
            if len(st) > 1:
                yield dict(case, trajs=case["trajs"][:i] + [st[:len(st) // 2]] + case["trajs"][i + 1:])
                yield dict(case, trajs=case["trajs"][:i] + [st[len(st) // 2:]] + case["trajs"][i + 1:])
        return
    key = "pos" if k == "motion" else "ts"
    n = len(case[key])
    for cut in sorted({n // 2, n // 4, 1} - {0}, reverse=True):
        for start in range(0, n, cut):
            c = dict(case)
            for f in ("pos", "ts", "rot"):
                if f in case:
                    c[f] = case[f][:start] + case[f][start + cut:]
            if len(c[key]) >= 1 and len(c[key]) < n:
                yield c


# ------------------------------------------------------------------ generators
def hx(xs):
    return [hexf(x) for x in xs]


def hpos(pos):
    return [[hexf(x) for x in p] for p in pos]


def corpus():
    cs = []
    # numpy's linspace is one below the exact floor at index 11 of (n, N) = (31, 23)
    cs += [{"kind": "downsample", "n": 31, "N": 23}, {"kind": "downsample", "n": 29, "N": 10},
           {"kind": "downsample", "n": 100, "N": 10},
           {"kind": "downsample", "n": 5, "N": 0}, {"kind": "downsample", "n": 5, "N": 1},
           {"kind": "downsample", "n": 5, "N": 5}, {"kind": "downsample", "n": 5, "N": 7},
           {"kind": "downsample", "n": 1, "N": 0}, {"kind": "downsample", "n": 1, "N": 1},
           {"kind": "downsample", "n": 2, "N": 1}]
    q = [["q", k] for k in (0, 0, 1, 1, 2, 2)]
    line = hpos([[0, 0, 0], [1, 0, 0], [2, 0, 0], [2, 0, 0], [2, 0, 0], [5, 0, 0]])
    cs += [{"kind": "motion", "pos": line, "rot": q, "dthr": hexf(2.0), "athr": hexf(90.0), "degrees": True},
           {"kind": "motion", "pos": line, "rot": q, "dthr": hexf(0.0), "athr": hexf(0.0), "degrees": False},
           {"kind": "motion", "pos": line, "rot": q, "dthr": hexf(100.0), "athr": hexf(3.0), "degrees": False},
           {"kind": "motion", "pos": line, "rot": q, "dthr": hexf(-1.0), "athr": hexf(1.0), "degrees": False},
           {"kind": "motion", "pos": line, "rot": q, "dthr": hexf(1.0), "athr": hexf(-1.0), "degrees": True},
           {"kind": "motion", "pos": line[:1], "rot": q[:1], "dthr": hexf(1.0), "athr": hexf(1.0), "degrees": False},
           {"kind": "motion", "pos": line, "rot": q, "dthr": hexf(100.0), "athr": hexf(89.99999999), "degrees": True}]
    ts = hx([0, 1, 2, 3, 4, 5])
    cs += [{"kind": "crop", "ts": ts, "start": hexf(1.0), "end": hexf(4.0)},
           {"kind": "crop", "ts": ts, "start": None, "end": hexf(2.5)},
           {"kind": "crop", "ts": ts, "start": hexf(2.5), "end": None},
           {"kind": "crop", "ts": ts, "start": hexf(2.25), "end": hexf(2.75)},
           {"kind": "crop", "ts": ts, "start": hexf(7.0), "end": hexf(9.0)},
           {"kind": "crop", "ts": ts, "start": hexf(4.0), "end": hexf(1.0)},
           {"kind": "crop", "ts": ts, "start": hexf(9.0), "end": None},
           {"kind": "crop", "ts": ts, "start": None, "end": None},
           {"kind": "crop", "ts": hx([3]), "start": hexf(3.0), "end": hexf(3.0)}]
    gts = hx([0, 1, 2, 5, 6, 10, 11, 12])
    cs += [{"kind": "split_time", "ts": gts, "thr": hexf(2.0)}, {"kind": "split_time", "ts": gts, "thr": hexf(3.0)},
           {"kind": "split_time", "ts": gts, "thr": hexf(100.0)}, {"kind": "split_time", "ts": hx([4]), "thr": hexf(0.0)},
           {"kind": "split_time", "ts": gts, "thr": hexf(0.0)}]
    gp = hpos([[0, 0, 0], [1, 0, 0], [2, 0, 0], [6, 0, 0], [7, 0, 0], [7, 3, 4], [7, 3, 5]])
    g7 = hx(range(7))
    cs += [{"kind": "split_dist", "ts": g7, "pos": gp, "thr": hexf(2.0), "exact": True},
           {"kind": "split_dist", "ts": g7, "pos": gp, "thr": hexf(4.0), "exact": True},
           {"kind": "split_dist", "ts": g7, "pos": gp, "thr": hexf(5.0), "exact": True},
           {"kind": "split_dist", "ts": hx([0]), "pos": gp[:1], "thr": hexf(1.0), "exact": True},
           {"kind": "split_speed", "ts": g7, "pos": gp, "thr": hexf(2.0), "exact": True},
           {"kind": "split_speed", "ts": g7, "pos": gp, "thr": hexf(4.0), "exact": True},
           {"kind": "split_speed", "ts": hx([0, 1, 1, 2, 3, 4, 5]), "pos": gp, "thr": hexf(2.0), "exact": True},
           {"kind": "split_speed", "ts": hx([0]), "pos": gp[:1], "thr": hexf(2.0), "exact": True}]
    cs += [{"kind": "merge", "trajs": [hx([0, 2, 4]), hx([1, 3, 5])]},
           {"kind": "merge", "trajs": [hx([5, 6]), hx([0, 1]), hx([2, 3, 4])]},
           {"kind": "merge", "trajs": [hx([0, 1, 2])]},
           {"kind": "merge", "trajs": [hx([0, 1, 2]), hx([1, 2, 3])]},
           {"kind": "merge", "trajs": [hx([3, 2, 1]), hx([2.5])]}]
    return cs


def grid_cases(ctx):
    out = []
    nmax = ctx.n(45, 60)
    for n in range(1, nmax + 1):
        for N in range(0, n + 3):
            out.append({"kind": "downsample", "n": n, "N": N})
    # crop on a small dyadic stamp grid, every interval
    pts = [0.0, 0.5, 1.0, 1.5, 2.0, 3.0]
    bounds = [None, -1.0, 0.0, 0.25, 0.5, 1.0, 1.75, 2.0, 3.0, 4.0]
    for n in range(1, 5):
        for ts in itertools.combinations(pts, n):
            for s in bounds:
                for e in bounds:
                    out.append({"kind": "crop", "ts": hx(ts), "start": None if s is None else hexf(s),
                                "end": None if e is None else hexf(e)})
    # splits: step patterns from {1, 2, 3}, thresholds hit exactly
    for n in range(2, ctx.n(6, 7) + 1):
        for steps in itertools.product((1, 2, 3), repeat=n - 1):
            ts = [0.0] + list(itertools.accumulate(float(s) for s in steps))
            pos = [[t, 0.0, 0.0] for t in ts]
            for thr in (0.0, 1.0, 2.0, 3.0):
                out.append({"kind": "split_time", "ts": hx(ts), "thr": hexf(thr)})
                out.append({"kind": "split_dist", "ts": hx(range(n)), "pos": hpos(pos), "thr": hexf(thr), "exact": True})
                if len(out) % 3 == 0:
                    out.append({"kind": "split_speed", "ts": hx(range(n)), "pos": hpos(pos), "thr": hexf(thr), "exact": True})
    # motion filter on a lattice with quarter turns: every pattern of (step, turn)
    acts = [(0, 0), (1, 0), (2, 0), (0, 1), (1, 1), (0, 2)]
    for n in range(2, ctx.n(5, 6) + 1):
        for seq_ in itertools.product(acts, repeat=n - 1):
            x, k, pos, rot = 0.0, 0, [[0.0, 0.0, 0.0]], [["q", 0]]
            for st, tu in seq_:
                x += st
                k += tu
                pos.append([x, 0.0, 0.0])
                rot.append(["q", k])
            for dthr, athr, deg in ((2.0, 100.0, True), (1.0, 3.0, False), (3.0, 1.5, False), (100.0, 80.0, True), (0.0, 0.0, False)):
                if (len(out) + int(dthr)) % ctx.n(4, 1) == 0:
                    out.append({"kind": "motion", "pos": hpos(pos), "rot": rot, "dthr": hexf(dthr), "athr": hexf(athr),
                                "degrees": deg})
    # merge: interleavings of small stamp sets
    base = [0.0, 0.5, 1.0, 1.5, 2.0, 2.5]
    for k in range(1, 4):
        for assign in itertools.product(range(k), repeat=len(base)):
            trajs = [[t for t, a in zip(base, assign) if a == j] for j in range(k)]
            if all(trajs):
                out.append({"kind": "merge", "trajs": [hx(t) for t in trajs]})
    return out


def random_cases(ctx):
    from scipy.spatial.transform import Rotation
    rng = ctx.np_rng(11)
    out = []
    # sampled (n, N) pairs, larger n
    for _ in range(ctx.n(150, 1500)):
        n = int(rng.integers(2, ctx.n(600, 5000)))
        N = int(rng.integers(1, n + 3))
        out.append({"kind": "downsample", "n": n, "N": N})
    total = ctx.n(420, 3000)
    for k in range(total):
        kind = ["motion", "motion", "crop", "split_time", "split_dist", "split_speed", "merge"][k % 7]
        big = (not ctx.quick) and k % 211 == 0
        n = int(rng.integers(1, 5000 if big else ctx.n(300, 400)))
        if kind == "motion":
            n = max(n, 2) if k % 29 else 1
            mode = (k // 7) % 6
            steps = rng.normal(size=(n - 1, 3)) * float(rng.choice([0.01, 0.1, 1.0]))
            if mode == 1:
                steps[rng.random(n - 1) < 0.5] = 0.0          # stationary stretches
            if mode == 2:
                steps = np.zeros((n - 1, 3))
                steps[np.arange(n - 1), rng.integers(0, 3, n - 1)] = rng.integers(0, 3, n - 1)   # lattice
            pos = np.concatenate([np.zeros((1, 3)), np.cumsum(steps, axis=0)]) + float(rng.choice([0.0, 3.0e5]))
            rv = np.cumsum(rng.normal(size=(n, 3)) * float(rng.choice([0.005, 0.05, 0.5])), axis=0)
            if mode == 3:
                rv[:] = rv[0]                                  # no rotation at all
            rot = [["v"] + hx(r) for r in rv]
            total_len = float(np.sum(np.linalg.norm(np.diff(pos, axis=0), axis=1))) if n > 1 else 1.0
            dthr = float(rng.choice([0.0, 0.02, 0.1, 0.5, 10.0])) * max(total_len, 1e-3)
            deg = bool(k % 2)
            athr = float(rng.choice([0.0, 0.05, 0.3, 1.0, 3.5]))
            if deg:
                athr = athr * 180 / math.pi
            if mode in (4, 5) and n > 3:
                # thresholds hit exactly: accumulated distance / oracle angle of pose j seen from pose 0
                from evo.core import geometry, lie_algebra as lie
                j = int(rng.integers(1, n))
                if mode == 4:
                    dthr, athr, deg = float(geometry.accumulated_distances(pos)[j]), 4.0, False
                else:
                    t = make_traj(pos.tolist(), list(range(n)), rot=rot)
                    athr, deg = lie.so3_log_angle(lie.relative_so3(t.poses_se3[0][:3, :3], t.poses_se3[j][:3, :3])), False
                    dthr = 10.0 * max(total_len, 1.0)
            out.append({"kind": "motion", "pos": hpos(pos.tolist()), "rot": rot, "dthr": hexf(dthr), "athr": hexf(athr),
                        "degrees": deg})
            continue
        base = float(rng.choice([0.0, 1.5e9]))
        dts = rng.uniform(0.5, 1.5, n) * float(rng.choice([0.01, 0.1, 1.0]))
        if k % 3 == 0:
            dts[rng.random(n) < 0.05] *= 30                   # gaps / irregular sampling
        ts = base + np.cumsum(dts)
        if k % 5 == 0:
            ts = np.round(ts * 64) / 64                        # dyadic stamps: exact differences
            ts = np.unique(ts)
            n = len(ts)
        if kind == "crop":
            lo, hi = float(ts[0]), float(ts[-1])
            pick = lambda: float(rng.choice([rng.uniform(lo - 1, hi + 1), ts[int(rng.integers(0, n))]]))  # noqa
            s, e = pick(), pick()
            if k % 4 == 0:
                s, e = min(s, e), max(s, e)
            out.append({"kind": "crop", "ts": hx(ts), "start": None if k % 11 == 0 else hexf(s),
                        "end": None if k % 13 == 0 else hexf(e)})
        elif kind == "split_time":
            d = np.diff(ts) if n > 1 else np.array([1.0])
            thr = float(rng.choice([d[int(rng.integers(0, len(d)))], np.median(d) * 1.5, d.max(), d.min() * 0.5, d.max() * 2]))
            out.append({"kind": "split_time", "ts": hx(ts), "thr": hexf(thr)})
        elif kind in ("split_dist", "split_speed"):
            steps = rng.normal(size=(max(n - 1, 0), 3)) * 0.1
            if n > 1:
                steps[rng.random(n - 1) < 0.04] *= 40          # jumps
                steps[rng.random(n - 1) < 0.1] = 0.0
            pos = np.concatenate([np.zeros((1, 3)), np.cumsum(steps, axis=0)]) + float(rng.choice([0.0, 4.0e5]))
            exact = False
            if k % 4 == 1 and n > 1:                           # lattice: exact norms, thresholds hit exactly
                st = np.zeros((n - 1, 3))
                st[np.arange(n - 1), rng.integers(0, 3, n - 1)] = rng.integers(0, 5, n - 1)
                pos = np.concatenate([np.zeros((1, 3)), np.cumsum(st, axis=0)])
                ts = np.arange(n) * 0.5
                exact = True
            from evo.core import geometry
            D = geometry.accumulated_distances(pos) if n > 1 else np.array([0.0])
            d = np.diff(D) if n > 1 else np.array([1.0])
            if kind == "split_dist":
                thr = float(rng.choice([d[int(rng.integers(0, len(d)))], np.median(d) * 3, d.max(), 0.0, d.max() * 2]))
            else:
                if k % 17 == 0 and n > 2:
                    ts = ts.copy()
                    ts[n // 2] = ts[n // 2 - 1]                # a non-increasing stamp: speeds are refused
                sp = d / np.maximum(np.diff(ts), 1e-9) if n > 1 else np.array([1.0])
                thr = float(rng.choice([sp[int(rng.integers(0, len(sp)))], np.median(sp) * 3, sp.max(), 0.0, sp.max() * 2]))
            out.append({"kind": kind, "ts": hx(ts), "pos": hpos(pos.tolist()), "thr": hexf(thr), "exact": exact})
        else:
            m = int(rng.integers(1, 7))
            ts = ts[:(600 if big else 200)]
            n = len(ts)
            if k % 2:
                owner = rng.integers(0, m, n)                  # interleaved
                trajs = [ts[owner == j] for j in range(m)]
            else:
                cut = np.sort(rng.integers(0, n + 1, m - 1))
                trajs = np.split(ts, cut)
                rng.shuffle(trajs)
            trajs = [t for t in trajs if len(t)]
            if k % 6 == 0 and len(trajs) > 1:
                trajs[0] = np.concatenate([trajs[0], trajs[1][:3]])     # equal stamps in different trajectories
                trajs[0] = np.sort(trajs[0])
            out.append({"kind": "merge", "trajs": [hx(t) for t in trajs]})
    return out


def run(ctx, replay=None, proofs_ok=True):
    FRAGILE[0] = 0
    if replay is not None:
        cases = [replay["case"]]
    else:
        cases = corpus() + grid_cases(ctx) + random_cases(ctx)
        head, rest = cases[:3], cases[3:]
        ctx.rng.shuffle(rest)        # spread the expensive cases over the parallel case files
        cases = head + rest
    failures, stats = differential(ctx, cases, imports=IMPORTS, impl=impl, expr=expr, judge=judge,
                                   shrink=shrink, nontrivial=nontrivial, per_file=ctx.n(250, 300))
    hist = {}
    for c in cases:
        if c["kind"] == "downsample":
            size = c["n"]
        elif c["kind"] == "merge":
            size = sum(len(t) for t in c["trajs"])
        else:
            size = len(c.get("pos", c.get("ts", [])))
        b = "%s:n<=%d" % (c["kind"], 10 ** len(str(size)))
        hist[b] = hist.get(b, 0) + 1
    n_speed = sum(1 for c in cases if c["kind"] == "split_speed" and not c.get("exact"))
    cov = {"evaluations": stats["evaluations"], "distinct_nontrivial": stats["distinct_nontrivial"],
           "rule": "corpus + exhaustive grids (downsample: every target count 0..n+2 for every n up to the grid bound; crop: "
                   "every interval over a dyadic stamp grid incl. empty/one-sided/outside; splits: every step pattern over "
                   "{1,2,3} x thresholds hit exactly; motion: every (step, quarter-turn) pattern x threshold sets; merge: "
                   "every assignment of 6 stamps to 1..3 trajectories) + random (sampled (n, N); random walks with stationary "
                   "stretches, jumps, lattice steps, UTM/epoch offsets, irregular sampling, exact threshold hits, 1..6 "
                   "trajectories incl. interleaved and equal stamps); non-trivial = the operation kept some but not all "
                   "poses / produced at least two parts / merged at least two trajectories",
           "samples": cases[:3] + cases[-2:], "input_distribution": hist, "exhaustive": True,
           "regimes": {"exact": stats["evaluations"] - n_speed, "rounded": n_speed, "fragile": FRAGILE[0]},
           "disagreements": stats["disagreements"]}
    return {"failures": failures, "coverage": cov}


LEVEL_TEXT = ("Machine-checked theorems (Coq) over an executable model of downsample / motion_filter / reduce_to_time_range / "
              "split_time_gaps / split_distance_gaps / split_speed_outliers / merge / reduce_to_ids: exact-rational sampling is "
              "evenly spaced (count min(N, n), first, last, gaps floor/ceil) and equals the real-number reading of the linspace "
              "model; the binary64 linspace model is evenly spaced for all n <= 300 (bounded enumeration inside Coq); the motion "
              "filter keeps pose j iff the path or the rotation since the last kept pose reached its threshold; crop = filter; "
              "splits partition the trajectory with cuts exactly at the steps exceeding the threshold; merge permutes stamp, "
              "position and orientation together into the order given by argsort; reduce_to_ids keeps order and togetherness. "
              "The model is tied to the code by a differential run that also checks every output pose bit-for-bit.")
LEVEL_NOTE = ("Trusted: Coq kernel/VM, Reals axioms (stdlib), the hand-written model's correspondence (tested, not proved), numpy's "
              "IEEE semantics, the angle and argsort oracles (validated per case). Beyond n = 300 the evenly-spaced claim for "
              "numpy's binary64 linspace rests on the correspondence run only.")
TECHNIQUE = "Coq proof (list induction, Z division lemmas, bounded vm_compute enumeration) + model/implementation correspondence"
