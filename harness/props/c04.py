"""C04 - trajectory alignment (PosePath3D.align / align_origin, alignment stage of main_ape/main_rpe) vs Evo.Align."""
import copy
import math

import numpy as np

from harness import steps
from harness.common import cf, close, differential, hexf, unhex
from harness.props import c01
from harness.props.c01 import cposes, mk_poses, perturb, traj_from
from harness.props.c09 import rot_from_quat
from harness.props.c09 import H, U, cm3, cv3, rand_rot

ID = "C04"
IMPORTS = "From Evo Require Import Num Linalg Lie Umeyama Traj Align.\n"
COQ_TARGETS = ["theories/AlignProofs.vo", "theories/AlignPath.vo", "generated/StepsC04.vo"]
TRUSTED = ["model Evo.Align (on pose lists; the object/caches level is Evo.Traj, property C08) written by hand from "
           "PosePath3D.align / align_origin and the alignment stage of main_ape.ape / main_rpe.rpe",
           "np.linalg.svd as an oracle on a tape (its spec svd_at measured in C03's check on every case)",
           "wiring `only_scale = correct_scale and not align` and scale-before-transform re-extracted from the AST on every run "
           "(generated/StepsC04.v, theorems C04_wiring_*)",
           "real-vs-binary64 gap measured, not proved"]
ASSUMPTIONS = ["poses SE(3); n is -1 or >= 3; point sets non-degenerate (degenerate ones are refused: C03)"]
EPS = float(np.finfo(float).eps)


def regenerate(ctx):
    try:
        defs = [("trajectory_align", steps.extract("evo/core/trajectory.py", "align", ["umeyama_alignment", "scale", "transform", "se3"])),
                ("trajectory_align_origin", steps.extract("evo/core/trajectory.py", "align_origin", ["dot", "se3_inverse", "transform"]))]
        import ast, os
        from harness import common
        src = open(os.path.join(common.REPO, "evo/main_ape.py")).read()
        src2 = open(os.path.join(common.REPO, "evo/main_rpe.py")).read()
        only = []
        for name, s in (("main_ape", src), ("main_rpe", src2)):
            for n in ast.walk(ast.parse(s)):
                if isinstance(n, ast.Assign) and len(n.targets) == 1 and isinstance(n.targets[0], ast.Name) \
                        and n.targets[0].id == "only_scale":
                    only.append("%s: only_scale = %s" % (name, ast.unparse(n.value)))
        defs.append(("only_scale_wiring", only))
    except (steps.StepError, OSError, SyntaxError) as e:
        defs = [("trajectory_align", ["<extraction failed: %s>" % e]), ("trajectory_align_origin", []), ("only_scale_wiring", [])]
    steps.write_generated("StepsC04", defs)
    return []


def tape_svd():
    tape = []
    real = np.linalg.svd

    def rec(a, *args, **kw):
        out = real(a, *args, **kw)
        tape.append([np.array(o, dtype=float) for o in out])
        return out
    return tape, real, rec


def impl(case):
    from evo import main_ape, main_rpe
    from evo.core import geometry, metrics
    est = [U(p, (4, 4)) for p in case["est"]]
    ref = [U(p, (4, 4)) for p in case["ref"]]
    kind = case["kind"]

    def build(poses, from_quat):
        if not from_quat:
            return traj_from(poses)
        from evo.core import transformations as tfm
        from evo.core.trajectory import PosePath3D
        return PosePath3D(np.array([p[:3, 3] for p in poses]), np.array([tfm.quaternion_from_matrix(p) for p in poses]))
    te, tr = build(est, case.get("from_quat")), build(ref, False)
    ref_before = [p.copy() for p in tr.poses_se3]
    tape, real, rec = tape_svd()
    np.linalg.svd = rec
    try:
        try:
            if kind == "align":
                n = case["n"]
                r, t, c = te.align(tr, correct_scale=case["cs"], correct_only_scale=case["os"], n=n)
                out = {"r": H(r), "t": H(t), "c": hexf(c), "poses": [H(p) for p in te.poses_se3],
                       "pos": [H(v) for v in te.positions_xyz]}
                if case.get("twice") and not case["os"]:
                    r2, t2, c2 = te.align(tr, correct_scale=case["cs"], correct_only_scale=False, n=n)
                    out["twice"] = {"r": H(r2), "t": H(t2), "c": hexf(c2)}
            elif kind == "origin":
                T = te.align_origin(tr)
                out = {"T": H(T), "poses": [H(p) for p in te.poses_se3]}
            else:   # stage through main_ape.ape / main_rpe.rpe
                fn = main_ape.ape if case["tool"] == "ape" else main_rpe.rpe
                stamps = list(np.arange(len(est), dtype=float))
                te2, tr2 = traj_from(est, stamps), traj_from(ref, stamps)
                kw = dict(align=case["align"], correct_scale=case["cs"], n_to_align=case["n"], align_origin=case["origin"],
                          ref_name="ref", est_name="est")
                if case["tool"] == "rpe":
                    kw.update(delta=1, delta_unit=metrics.Unit.frames, all_pairs=False)
                res = fn(tr2, te2, metrics.PoseRelation.translation_part, **kw)
                A = res.np_arrays.get("alignment_transformation_sim3")
                stored = res.trajectories["est"]
                ids = list(range(len(est))) if case["tool"] == "ape" else [0] + list(range(1, len(est)))
                out = {"A": H(A) if A is not None else None, "poses": [H(p) for p in stored.poses_se3], "n_stored": int(stored.num_poses)}
                if case["n"] != -1 and (case["align"] or case["cs"]) and case["n"] < len(est):
                    # "determines it from the first n pose pairs only": other poses behind index n, same alignment
                    rg = np.random.default_rng(len(est))
                    def other(ps):
                        qs = [p.copy() for p in ps]
                        for q in qs[case["n"]:]:
                            q[:3, 3] = q[:3, 3] * rg.uniform(1.5, 3.0) + rg.normal(size=3)
                        return qs
                    res2 = fn(traj_from(other(ref), stamps), traj_from(other(est), stamps), metrics.PoseRelation.translation_part, **kw)
                    A2 = res2.np_arrays.get("alignment_transformation_sim3")
                    out["A_tail_changed"] = H(A2) if A2 is not None else None
        except geometry.GeometryException:
            out = {"refused": "GeometryException"}
        except Exception as e:  # noqa
            import traceback
            out = {"exception": type(e).__name__ + ": " + str(e)[:120] + traceback.format_exc()[-300:]}
    finally:
        np.linalg.svd = real
    out["ref_unchanged"] = all((a == b).all() for a, b in zip(ref_before, tr.poses_se3))
    if tape:
        out["tape"] = [{"u": H(u), "d": H(d), "v": H(v)} for u, d, v in tape[:2]]
    return out


def expr(case, out):
    est = [U(p, (4, 4)) for p in case["est"]]
    ref = [U(p, (4, 4)) for p in case["ref"]]
    E, Rf = cposes(est), cposes(ref)
    tp = out.get("tape")
    if tp:
        t0 = tp[0]
        svd = "(fun _ => (%s, %s, %s))" % (cm3(U(t0["u"], (3, 3))), cv3(U(t0["d"], 3)), cm3(U(t0["v"], (3, 3))))
    else:
        svd = "(fun _ => (I3, V0, I3))"
    b = lambda x: "true" if x else "false"
    n = "None" if case.get("n", -1) == -1 else "(Some %d%%nat)" % case["n"]
    if case["kind"] == "align":
        return ("match align %s %s %s %s %s %s %s with Some (P, (r, t, c)) => Some (map plist P, mlist r, vlist t, c) | None => None end"
                % (svd, cf(EPS), E, Rf, b(case["cs"]), b(case["os"]), n))
    if case["kind"] == "origin":
        return "match align_origin %s %s with Some (P, T) => Some (map plist P, plist T) | None => None end" % (E, Rf)
    return ("match align_stage %s %s %s %s %s %s %s %s with Some (P, A) => Some (map plist P, option_map plist A) | None => None end"
            % (svd, cf(EPS), E, Rf, b(case["align"]), b(case["cs"]), b(case["origin"]), n))


_sv, _mv = c01._sv, c01._mv


def np_umeyama(x, y, with_scale):
    """Umeyama's closed form written independently of evo and of the Coq model (numpy only): x, y are 3 x n"""
    n = x.shape[1]
    mx, my = x.mean(axis=1, keepdims=True), y.mean(axis=1, keepdims=True)
    cov = (y - my) @ (x - mx).T / n
    u, d, vt = np.linalg.svd(cov)
    sgn = np.eye(3)
    if np.linalg.det(u) * np.linalg.det(vt) < 0:
        sgn[2, 2] = -1.0
    r = u @ sgn @ vt
    c = float((d * np.diag(sgn)).sum() / (((x - mx) ** 2).sum() / n)) if with_scale else 1.0
    t = (my - c * r @ mx).ravel()
    return r, t, c


def flat(p):
    return list(p[:3, :3].reshape(9)) + list(p[:3, 3])


def poses_close(a, b, scale, tol=1e-8):
    return len(a) == len(b) and all(np.allclose(x[:3, :3], y[:3, :3], atol=tol) and np.allclose(x[:3, 3], y[:3, 3], rtol=tol, atol=tol * scale)
                                    for x, y in zip(a, b))


def from_model(ps):
    out = []
    for v in ps:
        p = np.eye(4)
        p[:3, :3] = np.array([float(x) for x in v[:9]]).reshape(3, 3)
        p[:3, 3] = [float(x) for x in v[9:]]
        out.append(p)
    return out


def judge(case, val, out):
    if "exception" in out:
        return _sv("unexpected exception: " + out["exception"])
    if not out["ref_unchanged"]:
        return _sv("the reference trajectory was modified by the alignment")
    est = [U(p, (4, 4)) for p in case["est"]]
    ref = [U(p, (4, 4)) for p in case["ref"]]
    scale = max([1.0] + [float(np.abs(p[:3, 3]).max()) for p in est + ref])
    model = val[1] if isinstance(val, tuple) and len(val) == 2 and val[0] == "Some" else val
    if case.get("unequal") and "refused" not in out:
        return _sv("trajectories of different length (%d vs %d poses) were aligned instead of refused" % (len(est), len(ref)))
    if "refused" in out:
        return None if model is None else _mv("implementation refused, model returns a result", "Align")
    if case.get("degenerate_first_n"):
        return _sv("n = %d is given and the first n positions of the estimate coincide (nothing can be determined from them), "
                   "but an alignment was returned: it was not determined from the first n pose pairs only" % case["n"])
    after = [U(p, (4, 4)) for p in out["poses"]]
    kind = case["kind"]
    for k, q in enumerate(after):   # orientations are R * R_p: still rotation blocks (both storage modes)
        if not np.allclose(q[:3, :3].T @ q[:3, :3], np.eye(3), rtol=0, atol=1e-9):
            return _sv("the rotation block of pose %d is not orthonormal after the alignment (max deviation %.3g)"
                       % (k, float(np.abs(q[:3, :3].T @ q[:3, :3] - np.eye(3)).max())))
    if kind == "align":
        r, t, c = U(out["r"], (3, 3)), U(out["t"], 3), unhex(out["c"])
        # --- the property on the implementation's own output
        if not np.allclose(r.T @ r, np.eye(3), rtol=0, atol=1e-9) or abs(np.linalg.det(r) - 1.0) > 1e-9 or not (c > 0):
            return _sv("returned alignment is not a similarity (rotation not proper: det = %.6g, scale %.6g)" % (np.linalg.det(r), c))
        for k, (p, q) in enumerate(zip(est, after)):
            if case["os"]:
                want_R, want_t = p[:3, :3], c * p[:3, 3]
            else:
                want_R, want_t = r @ p[:3, :3], c * (r @ p[:3, 3]) + t
            if not np.allclose(q[:3, :3], want_R, atol=1e-8) or not np.allclose(q[:3, 3], want_t, rtol=1e-8, atol=1e-8 * scale):
                return _sv("pose %d was not moved by exactly the returned similarity" % k)
        if not (case["cs"] or case["os"]) and c != 1.0:
            return _sv("scale is not exactly 1 in rigid mode")
        n = len(est) if case["n"] == -1 else case["n"]
        x = np.array([p[:3, 3] for p in est[:n]])
        y = np.array([p[:3, 3] for p in ref[:n]])
        xa = np.array([p[:3, 3] for p in after[:n]])
        if not case["os"]:
            sse = lambda a: float(((a - y) ** 2).sum())
            slack = 1e-9 * max(sse(x), 1e-300) + n * (1e-12 * scale) ** 2
            if sse(xa) > sse(x) + slack:
                return _sv("translational RMSE over the poses used is larger after the alignment than before")
            try:   # a concrete competitor of the same class: the closed-form optimum evaluated independently with numpy
                orr, ot, oc = np_umeyama(x.T, y.T, case["cs"])
                if abs(np.linalg.det(orr) - 1.0) < 1e-9 and sse(xa) > sse(oc * (x @ orr.T) + ot) * (1 + 1e-6) + slack:
                    return _sv("another transformation of the same class fits better than the returned alignment: sum of squared "
                               "distances %r after align(), %r for the closed-form optimum" % (sse(xa), sse(oc * (x @ orr.T) + ot)))
            except np.linalg.LinAlgError:
                pass
            rng = np.random.default_rng(n)
            from harness.props.c09 import rodrigues_py
            for k in range(6):
                dr = rodrigues_py(rng.normal(size=3) * 10.0 ** (-(k % 3) - 1)) @ r
                cc = c * (1 + 0.02 * rng.normal()) if case["cs"] else 1.0
                tt = t + rng.normal(size=3) * 0.01 * 10.0 ** (-(k % 3)) * max(1.0, float(np.abs(t).max()))
                if sse(xa) > sse(cc * (x @ dr.T) + tt) + slack:
                    return _sv("another transformation of the same class fits better than the returned alignment")
            if "twice" in out:
                tw = out["twice"]
                if not np.allclose(U(tw["r"], (3, 3)), np.eye(3), atol=1e-6) or not close(unhex(tw["c"]), 1.0, rtol=1e-6) \
                        or not np.allclose(U(tw["t"], 3), 0.0, rtol=0, atol=1e-6 * scale):
                    return _sv("aligning an already aligned trajectory again is not the identity")
        # --- correspondence with the model on the same SVD answer
        if model is None:
            return _mv("model refuses, implementation returns a result", "Align.align")
        mp, mr, mt_, mc = model
        if not np.allclose(r.reshape(9), [float(v) for v in mr], atol=1e-9) or not close(c, float(mc), rtol=1e-9) \
                or not np.allclose(t, [float(v) for v in mt_], rtol=1e-9, atol=1e-9 * scale):
            orr, ot, oc = np_umeyama(x.T, y.T, case["cs"] or case["os"])
            if np.allclose(orr.reshape(9), [float(v) for v in mr], atol=1e-7) and close(oc, float(mc), rtol=1e-7) \
                    and np.allclose(ot, [float(v) for v in mt_], rtol=1e-7, atol=1e-7 * scale):
                # the Coq model and an independent numpy Umeyama on the first n pose pairs agree with each other
                return _sv("the returned (r, t, s) is not the least-squares alignment of the first n pose pairs in the requested "
                           "mode (Coq model and an independent numpy evaluation agree): s = %r, expected %r" % (c, float(mc)))
            return _mv("returned (r, t, s) differs from the model (first-n selection / scale mode?)", "Align.align")
        if not poses_close(after, from_model(mp), scale):
            return _mv("aligned poses differ from the model", "Align.align")
        return None
    if kind == "origin":
        T = U(out["T"], (4, 4))
        if not np.allclose(after[0], ref[0], rtol=1e-9, atol=1e-9 * scale):
            return _sv("origin alignment does not map the first pose onto the reference's first pose")
        for k in range(len(est) - 1):
            a = np.linalg.inv(est[k]) @ est[k + 1]
            b = np.linalg.inv(after[k]) @ after[k + 1]
            if not np.allclose(a, b, rtol=1e-7, atol=1e-7 * scale):
                return _sv("origin alignment changed the relative pose %d -> %d" % (k, k + 1))
        if model is None:
            return _mv("model refuses origin alignment", "Align.align_origin")
        mp, mT = model
        if not poses_close(after, from_model(mp), scale) or not poses_close([T], from_model([mT]), scale):
            return _mv("origin-aligned poses / returned matrix differ from the model", "Align.align_origin")
        return None
    # stage
    A = U(out["A"], (4, 4)) if out.get("A") is not None else None
    used = (case["align"] or case["cs"] or case["origin"])
    if used and A is None:
        return _sv("no alignment matrix recorded although an alignment was requested")
    if not used and A is not None:
        return _sv("alignment matrix recorded although nothing was aligned")
    if len(after) != len(est):
        return _sv("stored estimate has %d poses, input %d" % (len(after), len(est)))
    if A is not None:
        for k, (p, q) in enumerate(zip(est, after)):
            want = A[:3, :3] @ p[:3, 3] + A[:3, 3]
            if not np.allclose(q[:3, 3], want, rtol=1e-8, atol=1e-8 * scale):
                return _sv("recorded alignment matrix does not map unaligned estimate position %d onto the stored one "
                           "(max deviation %.3g)" % (k, float(np.abs(q[:3, 3] - want).max())))
    if "A_tail_changed" in out and not case["origin"]:
        A2 = U(out["A_tail_changed"], (4, 4)) if out["A_tail_changed"] is not None else None
        if A is None or A2 is None or not np.allclose(A, A2, rtol=1e-12, atol=1e-12 * scale):
            return _sv("n_to_align = %d: the recorded alignment changes when only poses behind the first n are changed" % case["n"])
    if model is None:
        return _mv("model refuses the alignment stage", "Align.align_stage")
    mp, mA = model
    mA = mA[1] if isinstance(mA, tuple) and len(mA) == 2 and mA[0] == "Some" else mA
    if not poses_close(after, from_model(mp), scale):
        return _mv("stored estimate differs from the model's alignment stage", "Align.align_stage")
    if (mA is None) != (A is None) or (A is not None and not poses_close([A], from_model([mA]), scale)):
        return _mv("recorded matrix differs from the model's", "Align.align_stage")
    return None


def gen(ctx):
    rng = ctx.np_rng(4)
    cases = []

    def pair(n, noise, s, planar=False):
        ref = mk_poses(rng, n, 10.0, float(rng.choice([0.0, 0.0, 4.5e5])), rot_mode="smooth")
        for k, p in enumerate(ref):
            p[:3, 3] += np.array([0.5 * k, math.sin(0.3 * k) * 3, 0.1 * k])
            if planar:      # ground-vehicle data: exactly planar reference (rank-2 covariance)
                p[2, 3] = 0.0
        ext = float(np.ptp(np.array([p[:3, 3] for p in ref]), axis=0).max())
        est = []
        T = np.eye(4)
        T[:3, :3] = rand_rot(rng)
        T[:3, 3] = rng.normal(size=3) * 20
        for p in perturb(rng, ref, 0.05, 0.0 if planar else noise * ext):
            q = p.copy()
            q[:3, 3] = q[:3, 3] / s
            est.append(T @ q)
        return ref, est
    for i in range(ctx.n(140, 700)):
        n = int(rng.integers(3, ctx.n(40, 200)))
        if not ctx.quick and i % 80 == 0:
            n = int(rng.integers(800, 2000))
        noise = float(rng.choice([0.0, 1e-3, 0.05, 0.3, 1.0]))
        s = float(rng.choice([1.0, 1e-2, 0.3, 3.0, 1e2]))
        ref, est = pair(n, noise, s, planar=(i % 5 == 3))
        mode = i % 3
        nn = -1 if i % 4 else int(rng.integers(3, n + 1))
        if i % 16 == 8:
            nn = n      # n given explicitly and equal to the number of poses: the same alignment as n = -1
        cases.append({"kind": "align", "est": [H(p) for p in est], "ref": [H(p) for p in ref], "cs": mode == 1, "os": mode == 2,
                      "n": nn, "from_quat": bool(i % 2), "twice": bool(noise > 0 and noise < 1.0 and n >= 6 and i % 2 == 0)})
    # similarity alignment with a scale a few 1e-6 away from 1 (inside the tolerance of evo's SE(3) membership test)
    for i in range(ctx.n(12, 40)):
        n = int(rng.integers(5, 30))
        s_ = 1.0 + float([1e-6, -1e-6, 2e-6, -3e-6, 3e-6, 8e-6][i % 6])
        ref, est = pair(n, 0.0, s_)
        cases.append({"kind": "align", "est": [H(p) for p in est], "ref": [H(p) for p in ref], "cs": True, "os": False,
                      "n": -1, "from_quat": bool(i % 2), "twice": False})
    # geo-referenced (UTM-like) data: the estimate is the reference moved by a metre or so - tiny relative to the coordinates
    for i in range(ctx.n(12, 40)):
        n = int(rng.integers(5, 30))
        off = np.array([4.5e5, 5.6e6, 300.0])
        ref = mk_poses(rng, n, 5.0, 0.0, rot_mode="smooth")
        for k, p in enumerate(ref):
            p[:3, 3] = off + np.array([0.5 * k, math.sin(0.3 * k) * 3, 0.05 * k])
        shift = rng.normal(size=3) * np.array([1.0, 1.0, 1e-3])
        est = []
        for p in ref:
            q = p.copy()
            q[:3, 3] = q[:3, 3] + shift
            est.append(q)
        cases.append({"kind": "align", "est": [H(p) for p in est], "ref": [H(p) for p in ref], "cs": bool(i % 2), "os": False,
                      "n": -1, "from_quat": bool((i // 2) % 2), "twice": False})
    # n given and the platform stands still during the first n poses: nothing can be determined from them
    for i in range(ctx.n(9, 30)):
        n = int(rng.integers(10, 30))
        k0 = int(rng.integers(3, 8))
        ref, est = pair(n, 0.05, 1.0)
        for k in range(1, k0):
            est[k][:3, 3] = est[0][:3, 3]
        cases.append({"kind": "align", "est": [H(p) for p in est], "ref": [H(p) for p in ref], "cs": i % 3 == 1, "os": i % 3 == 2,
                      "n": k0, "from_quat": bool(i % 2), "twice": False, "degenerate_first_n": True})
    # trajectories of different length (not synchronised): align() must refuse, not align against a prefix
    for i in range(ctx.n(12, 40)):
        n = int(rng.integers(6, 30))
        ref, est = pair(n, 0.05, 1.0)
        k = int(rng.integers(3, n))
        if i % 2:
            est = est[:k]
        else:
            ref = ref[:k]
        cases.append({"kind": "align", "est": [H(p) for p in est], "ref": [H(p) for p in ref], "cs": bool(i % 3 == 1), "os": bool(i % 3 == 2),
                      "n": -1, "from_quat": bool(i % 2), "unequal": True})
    for i in range(ctx.n(30, 150)):
        n = int(rng.integers(1, 30))
        ref, est = pair(n, 0.05, 1.0)
        cases.append({"kind": "origin", "est": [H(p) for p in est], "ref": [H(p) for p in ref], "from_quat": bool(i % 2)})
    for i in range(ctx.n(12, 60)):
        # geo-referenced (UTM-like) coordinates: the origins are metres apart, which is tiny RELATIVE to the coordinates;
        # identical or slightly different start orientations
        n = int(rng.integers(2, 20))
        off = np.array([4.5e5, 5.6e6, 300.0]) * float(rng.choice([1.0, 0.1]))
        ref = mk_poses(rng, n, 5.0, 0.0, rot_mode="smooth")
        for k, p in enumerate(ref):
            p[:3, 3] = off + np.array([0.5 * k, math.sin(0.3 * k), 0.05 * k])
        shift = rng.normal(size=3) * float(rng.choice([0.5, 2.0])) * np.array([1.0, 1.0, 1e-3])   # (same altitude to a millimetre)
        est = []
        for p in ref:
            q = p.copy()
            q[:3, 3] = q[:3, 3] + shift + rng.normal(size=3) * 0.01 * np.array([1.0, 1.0, 1e-2])
            if i % 3 == 2:
                q[:3, :3] = q[:3, :3] @ rot_from_quat(np.array([1.0, 1e-3, -2e-3, 1e-3]))
            est.append(q)
        cases.append({"kind": "origin", "est": [H(p) for p in est], "ref": [H(p) for p in ref], "from_quat": bool(i % 2)})
    combos = [(a, c, o) for a in (False, True) for c in (False, True) for o in (False, True)]
    for i in range(ctx.n(32, 160)):
        a, c, o = combos[i % 8]
        n = int(rng.integers(5, 30))
        ref, est = pair(n, 0.05, float(rng.choice([1.0, 0.5, 3.0])))
        cases.append({"kind": "stage", "tool": "ape" if (i // 8) % 2 == 0 else "rpe", "est": [H(p) for p in est],
                      "ref": [H(p) for p in ref], "align": a, "cs": c, "origin": o, "n": -1 if i % 3 else int(rng.integers(3, n + 1))})
    return cases


def run(ctx, replay=None, proofs_ok=True):
    cases = [replay["case"]] if replay is not None else gen(ctx)
    failures, stats = differential(ctx, cases, imports=IMPORTS, impl=impl, expr=expr, judge=judge,
                                   nontrivial=lambda c, v, o: "poses" in o, per_file=25)
    hist = {}
    for c in cases:
        if c["kind"] == "align":
            key = "align:" + ("scale_only" if c["os"] else "similarity" if c["cs"] else "rigid") + (":n" if c["n"] != -1 else ":all")
        elif c["kind"] == "origin":
            key = "origin"
        else:
            key = "stage:%s:align=%d,scale=%d,origin=%d" % (c["tool"], c["align"], c["cs"], c["origin"])
        hist[key] = hist.get(key, 0) + 1
    small = lambda c: {k: (v if not isinstance(v, list) or len(v) < 3 else v[:1] + ["... %d more" % (len(v) - 1)]) for k, v in c.items()}
    cov = {"evaluations": stats["evaluations"], "distinct_nontrivial": stats["distinct_nontrivial"],
           "rule": "synchronized pairs (3..40 poses quick, ..2000 thorough; noise 0..100% of extent; scale ratios 1e-2..1e2; UTM offsets) x "
                   "{rigid, similarity, scale-only} x n in {-1, 3..N} x both storage modes, second alignment on generic data; origin "
                   "alignment; the alignment stage of main_ape.ape / main_rpe.rpe for all 8 combinations of align/correct_scale/"
                   "align_origin x n, checking the recorded matrix against the stored estimate; non-trivial = an alignment was performed",
           "samples": [small(cases[0]), small(cases[-1])], "input_distribution": hist, "disagreements": stats["disagreements"],
           "partial": ["C04_align_twice_identity_partial: the identity is optimal for aligned data (proved); that a second run RETURNS "
                       "the identity needs uniqueness of the optimum (not proved) - measured on generic noisy data"]}
    return {"failures": failures, "coverage": cov}


LEVEL_TEXT = ("Coq theorems over R: align applies exactly the returned similarity (scale-only: positions only), determined from the "
              "first n pairs only; over the poses used the squared residual after rigid/similarity alignment is <= before and <= "
              "that of any other transformation of the class (corollaries of the Umeyama optimality chain); the identity is optimal "
              "after alignment (partial form of idempotence); origin alignment maps the first pose onto the reference's and "
              "preserves all relative poses; the matrix recorded by evo_ape/evo_rpe maps the unaligned estimate onto the stored one "
              "for all flag combinations. Tie: differential run with the SVD on a tape + AST wiring obligations.")
LEVEL_NOTE = ("Trusted: Coq kernel/VM, Reals axioms + classic, hand model (tested), SVD oracle, float rounding measured. Idempotence of "
              "the returned parameters is not proved (uniqueness).")
TECHNIQUE = "Coq proof (corollaries of Umeyama optimality; SE(3) algebra) + oracle-tape correspondence by vm_compute + AST wiring obligation"
