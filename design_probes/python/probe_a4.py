import numpy as np, itertools, copy
from evo.core import lie_algebra as lie, metrics, sync
from evo.core.metrics import PoseRelation as PR, Unit
from evo.core.trajectory import PoseTrajectory3D
from evo import main_ape, main_rpe
from scipy.spatial.transform import Rotation
rng=np.random.default_rng(3)
M={Unit.millimeters:1e-3,Unit.centimeters:1e-2,Unit.meters:1.0,Unit.kilometers:1e3}
bad=[]
for u,v in itertools.product(Unit,Unit):
    m=metrics.APE(); m.unit=u; m.error=np.array([1.5,2.0,0.25]); before=m.error.copy()
    try: m.change_unit(v); res="ok"
    except metrics.MetricsException: res="refused"
    if u is v: exp="ok"; fac=1
    elif u in M and v in M: exp="ok"; fac=M[u]/M[v]
    elif (u,v)==(Unit.radians,Unit.degrees): exp="ok"; fac=180/np.pi
    elif (u,v)==(Unit.degrees,Unit.radians): exp="ok"; fac=np.pi/180
    else: exp="refused"
    if res!=exp: bad.append((u,v,res,exp)); continue
    if res=="ok" and not (np.allclose(m.error,before*fac,rtol=1e-15) and m.unit is v): bad.append((u,v,"value",m.error,before*fac))
    if res=="refused" and not (np.array_equal(m.error,before) and m.unit is u): bad.append((u,v,"mutated"))
print("units bad:",bad)
def rnd_traj(n,stationary=False):
    poses=[]; p=np.zeros(3)
    for i in range(n):
        if not (stationary and i%3==0): p=p+rng.normal(size=3)
        poses.append(lie.se3(Rotation.random(random_state=int(rng.integers(1<<30))).as_matrix(),p.copy()))
    return PoseTrajectory3D(poses_se3=poses,timestamps=np.arange(n)*0.1+1e9)
nb=0
for it in range(150):
    n=int(rng.integers(4,25)); ref=rnd_traj(n,stationary=it%2==0); est=rnd_traj(n)
    for rel in PR:
      for du,dl in ((Unit.frames,int(rng.integers(1,4))),(Unit.meters,2.0),(Unit.degrees,60.0)):
        for ap in (False,True):
          r0,e0=copy.deepcopy(ref),copy.deepcopy(est)
          try: res=main_rpe.rpe(r0,e0,rel,dl,du,0.5,ap,pairs_from_reference=bool(it%3==0))
          except Exception as e: continue
          m=metrics.RPE(rel,dl,du,0.5,ap,bool(it%3==0)); m.process_data((copy.deepcopy(ref),copy.deepcopy(est)))
          ids=m.delta_ids
          E=res.np_arrays["error_array"]
          ok=len(E)==len(ids)==len(res.np_arrays["timestamps"])==len(res.np_arrays["seconds_from_start"])==len(res.np_arrays["distances"])==len(res.np_arrays["distances_from_start"])
          ok&=np.array_equal(res.np_arrays["timestamps"],est.timestamps[ids])
          ok&=np.allclose(res.np_arrays["seconds_from_start"],est.timestamps[ids]-est.timestamps[0])
          tr_=res.trajectories["estimate"]; ok&=np.array_equal(tr_.timestamps,est.timestamps[[0]+ids])
          ok&=np.array_equal(res.trajectories["reference"].positions_xyz,ref.positions_xyz[[0]+ids])
          if not ok: nb+=1; print("RPE companion BAD",rel,du,ap,len(E),len(ids))
print("rpe companion bad",nb)
