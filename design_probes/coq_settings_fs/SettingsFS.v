(* Design probe for C19: settings files under crashes and concurrent starts (repaired protocol). *)
From Coq Require Import List Arith Lia Bool.
Import ListNotations.

(* file contents are abstract: a complete document carrying a "has all default keys" flag and a version tag *)
Inductive content := Complete (all_keys : bool) (ver_current : bool).
Inductive fstate := Absent | Partial | Present (c : content).

Inductive path := Settings | Version | Tmp (owner : nat) (target : bool (* true = settings *)).

Record fs := { dir : bool; settings : fstate; version : fstate; tmps : nat -> bool -> fstate }.

(* primitive steps a process can take *)
Inductive step :=
| Mkdir                          (* mkdir(exist_ok=True) *)
| CheckVersionMissing            (* branch on exists(version): sets a local flag *)
| CheckSettingsMissing
| TmpCreate (target : bool)      (* open(tmp,'w'): tmp := Partial (truncate/create) *)
| TmpFinish (target : bool) (c : content)   (* all writes + close: tmp := Present c *)
| Rename (target : bool)         (* os.replace(tmp, target): only enabled if tmp Present *)
| ReadVersion                    (* read version file; sets local outdated flag *)
| ReadSettingsForUpgrade
| Load.                          (* final json.load of settings *)

Definition upd_tmp (f : fs) (p : nat) (t : bool) (s : fstate) : fs :=
  {| dir := dir f; settings := settings f; version := version f;
     tmps := fun q u => if (Nat.eqb q p && Bool.eqb u t)%bool then s else tmps f q u |}.

(* effect of one primitive step of process p on the shared file system; None = the step fails (process dies) *)
Definition fs_step (f : fs) (p : nat) (s : step) : option fs :=
  match s with
  | Mkdir => Some {| dir := true; settings := settings f; version := version f; tmps := tmps f |}
  | CheckVersionMissing | CheckSettingsMissing => Some f
  | TmpCreate t => if dir f then Some (upd_tmp f p t Partial) else None
  | TmpFinish t c => match tmps f p t with Partial => Some (upd_tmp f p t (Present c)) | _ => None end
  | Rename t =>
      match tmps f p t with
      | Present c =>
          let f' := upd_tmp f p t Absent in
          Some (if t then {| dir := dir f'; settings := Present c; version := version f'; tmps := tmps f' |}
                else {| dir := dir f'; settings := settings f'; version := Present c; tmps := tmps f' |})
      | _ => None end
  | ReadVersion => match version f with Present _ => Some f | _ => None end
  | ReadSettingsForUpgrade | Load => match settings f with Present _ => Some f | _ => None end
  end.

(* the invariant of the property: the two shared files are never observed partial *)
Definition never_partial (f : fs) : Prop := settings f <> Partial /\ version f <> Partial.

Lemma step_preserves f p s f' : never_partial f -> fs_step f p s = Some f' -> never_partial f'.
Proof.
  intros [Hs Hv] E. unfold never_partial.
  destruct s; cbn in E;
    repeat match type of E with
           | context [if ?b then _ else _] => destruct b
           | context [match tmps f p ?t with _ => _ end] => destruct (tmps f p t)
           | context [match version f with _ => _ end] => destruct (version f) eqn:?
           | context [match settings f with _ => _ end] => destruct (settings f) eqn:?
           end; try discriminate; inversion E; subst; cbn; split; congruence.
Qed.

(* any interleaving of any number of processes, any crash points: a run is just a list of (process, step)
   pairs in which failing steps are skipped (the process died; the others go on) *)
Fixpoint run (f : fs) (tr : list (nat * step)) : fs :=
  match tr with [] => f | (p, s) :: r => match fs_step f p s with Some f' => run f' r | None => run f r end end.

Theorem never_partial_always f tr : never_partial f -> never_partial (run f tr).
Proof.
  revert f; induction tr as [|[p s] r IH]; intros f H; cbn; [exact H|].
  destruct (fs_step f p s) eqn:E; [apply IH; eapply step_preserves; eassumption | apply IH; exact H].
Qed.

(* monotone history: once complete, a shared file stays complete *)
Definition is_present (s : fstate) := match s with Present _ => true | _ => false end.
Lemma settings_stays f p s f' : fs_step f p s = Some f' -> is_present (settings f) = true -> is_present (settings f') = true.
Proof.
  intros E H.
  destruct s; cbn in E;
    repeat match type of E with
           | context [if ?b then _ else _] => destruct b
           | context [match tmps f p ?t with _ => _ end] => destruct (tmps f p t)
           | context [match version f with _ => _ end] => destruct (version f) eqn:?
           | context [match settings f with _ => _ end] => destruct (settings f) eqn:?
           end; try discriminate; inversion E; subst; cbn; try reflexivity; try assumption; congruence.
Qed.
Theorem settings_present_forever f tr : is_present (settings f) = true -> is_present (settings (run f tr)) = true.
Proof.
  revert f; induction tr as [|[p s] r IH]; intros f H; cbn; [exact H|].
  destruct (fs_step f p s) eqn:E; [apply IH; eapply settings_stays; eassumption | apply IH; exact H].
Qed.

(* old protocol, for the refutation: open(settings,'w') truncates the shared file in place *)
Definition old_truncate (f : fs) : fs := {| dir := dir f; settings := Partial; version := version f; tmps := tmps f |}.
Example old_protocol_refuted : exists f, never_partial f /\ ~ never_partial (old_truncate f).
Proof.
  exists {| dir := true; settings := Present (Complete true true); version := Present (Complete true true); tmps := fun _ _ => Absent |}.
  split; [split; discriminate|]. intros [H _]. apply H. reflexivity.
Qed.
Print Assumptions never_partial_always.
