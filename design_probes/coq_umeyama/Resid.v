From Coq Require Import Reals Lra Psatz Nsatz List.
Require Import LinR.
Import ListNotations.
Local Open Scope R_scope.

(* paired points (x_i, y_i) *)
Definition pts := list (V3 * V3).
Fixpoint vsum (l : list V3) : V3 := match l with [] => V0 | v :: r => vadd v (vsum r) end.
Fixpoint msum (l : list M3) : M3 := match l with [] => M0 | v :: r => madd v (msum r) end.
Fixpoint rsum (l : list R) : R := match l with [] => 0 | v :: r => v + rsum r end.
Definition xs (l : pts) := map fst l.
Definition ys (l : pts) := map snd l.
Definition nn (l : pts) := INR (length l).
Definition Sx l := vsum (xs l).
Definition Sy l := vsum (ys l).
Definition Sxx l := rsum (map nrm2 (xs l)).
Definition Syy l := rsum (map nrm2 (ys l)).
Definition Syx l := msum (map (fun p => outer (snd p) (fst p)) l).

Definition apply_sim c (Rm : M3) t x := vadd (vscale c (mv Rm x)) t.
Definition resid c Rm t (l : pts) := rsum (map (fun p => nrm2 (vsub (snd p) (apply_sim c Rm t (fst p)))) l).

Lemma nn_cons p l : nn (p :: l) = nn l + 1.
Proof. unfold nn. cbn [length]. rewrite S_INR. reflexivity. Qed.

(* Step A: expansion in moments, for orthogonal Rm *)
Lemma resid_moments c Rm t l : Orth Rm ->
  resid c Rm t l = Syy l - 2 * c * frob Rm (Syx l) - 2 * dot t (Sy l) + c*c * Sxx l + 2 * c * dot (mv Rm (Sx l)) t + nn l * nrm2 t.
Proof.
  intros O. induction l as [|[x y] l IH].
  - unfold resid, Syy, Syx, Sy, Sxx, Sx, nn; cbn. unfold frob, dot, mv, M0, V0, nrm2, dot; cbn. destruct Rm, t; cbn; ring.
  - unfold resid in *. cbn [map rsum fst snd]. rewrite IH. rewrite nn_cons.
    unfold Syy, Syx, Sy, Sxx, Sx, xs, ys. cbn [map rsum vsum msum fst snd].
    pose proof (dot_mv_orth Rm x O) as N.
    assert (E : nrm2 (vsub y (apply_sim c Rm t x)) = nrm2 y - 2*c*frob Rm (outer y x) - 2*dot t y + c*c*nrm2 (mv Rm x) + 2*c*dot (mv Rm x) t + nrm2 t).
    { destruct Rm, t, x, y. unfold nrm2, dot, vsub, apply_sim, vadd, vscale, mv, frob, outer; cbn. ring. }
    rewrite E, N.
    set (a := vsum (map fst l)). set (b := vsum (map snd l)). set (M := msum (map (fun p => outer (snd p) (fst p)) l)).
    destruct Rm, t, x, y, a, b, M. unfold nrm2, dot, vadd, mv, frob, outer, madd; cbn. ring.
Qed.

(* centred quantities *)
Definition mux l := vscale (/ nn l) (Sx l).
Definition muy l := vscale (/ nn l) (Sy l).
Definition A l := Syy l - nn l * nrm2 (muy l).      (* sum |y~|^2 *)
Definition B l := Sxx l - nn l * nrm2 (mux l).      (* sum |x~|^2 = n sigma_x^2 *)
Definition cov l := mscale (/ nn l) (madd (Syx l) (mscale (- nn l) (outer (muy l) (mux l)))).  (* 1/n sum y~ x~^T *)

Lemma vscale_mux l : nn l <> 0 -> Sx l = vscale (nn l) (mux l).
Proof. intros H. unfold mux. destruct (Sx l). unfold vscale; cbn. f_equal; field; exact H. Qed.
Lemma vscale_muy l : nn l <> 0 -> Sy l = vscale (nn l) (muy l).
Proof. intros H. unfold muy. destruct (Sy l). unfold vscale; cbn. f_equal; field; exact H. Qed.
Lemma mv_vscale Rm k v : mv Rm (vscale k v) = vscale k (mv Rm v).
Proof. destruct Rm, v. unfold mv, vscale; cbn. f_equal; ring. Qed.
Lemma frob_cov Rm l : nn l <> 0 ->
  nn l * frob Rm (cov l) = frob Rm (Syx l) - nn l * dot (muy l) (mv Rm (mux l)).
Proof.
  intros H. unfold cov. set (n := nn l) in *. destruct Rm, (Syx l), (muy l), (mux l).
  unfold frob, mscale, madd, outer, dot, mv; cbn. field. exact H.
Qed.

Lemma resid_decomp c Rm t l : Orth Rm -> nn l <> 0 ->
  resid c Rm t l = A l - 2 * c * (nn l * frob Rm (cov l)) + c*c * B l
                   + nn l * nrm2 (vsub (vsub (muy l) (vscale c (mv Rm (mux l)))) t).
Proof.
  intros O Hn. rewrite (resid_moments c Rm t l O).
  rewrite (frob_cov Rm l Hn). unfold A, B.
  rewrite (vscale_mux l Hn) at 1. rewrite (vscale_muy l Hn) at 1. rewrite mv_vscale.
  pose proof (dot_mv_orth Rm (mux l) O) as N.
  set (n := nn l) in *. set (u := mv Rm (mux l)) in *. set (my := muy l). set (mx := mux l) in *.
  set (F := frob Rm (Syx l)). set (yy := Syy l). set (xx := Sxx l).
  destruct u as [u1 u2 u3], my as [y1 y2 y3], mx as [x1 x2 x3], t as [t1 t2 t3].
  unfold nrm2, dot in N; cbn in N.
  unfold nrm2, dot, vsub, vscale; cbn.
  nsatz.
Qed.
