From Coq Require Import List String ZArith QArith Bool.
Require Import PyAst Gen.
Import ListNotations.
Open Scope string_scope.
Definition modes := map (fun p => VEnum "PlotMode" (fst p)) PlotMode_members.
Eval vm_compute in map (fun m => run [("plot_mode", m)] plot_mode_to_idx_body) modes.
Definition units := map (fun p => VEnum "Unit" (fst p)) Unit_members.
Definition genv : env :=
  match eval [] LENGTH_UNITS, eval [] ANGLE_UNITS, eval [] METER_SCALE_FACTORS with
  | Some a, Some b, Some c => [("LENGTH_UNITS", a); ("ANGLE_UNITS", b); ("METER_SCALE_FACTORS", c)] | _,_,_ => [] end.
Definition self0 (u : val) := VObj [("unit", u); ("error", VErr 1 0)].
Definition report (o : option val) (tag : string) := match o with Some (VObj f) => (lookup "unit" f, lookup "error" f, tag) | _ => (None, None, "stuck") end.
Definition cu (u v : val) :=
  match run (("self", self0 u) :: ("new_unit", v) :: genv) change_unit_body with
  | Normal en => report (lookup "self" en) "ok"
  | Returned _ => report (Some (self0 u)) "ok"
  | Raised _ => report (Some (self0 u)) "refused"
  | Stuck => (None, None, "stuck") end.
Eval vm_compute in map (fun v => cu (VEnum "Unit" "meters") v) units.
Eval vm_compute in map (fun v => cu (VEnum "Unit" "radians") v) units.
Eval vm_compute in filter (fun p => String.eqb (snd (cu (fst p) (snd p))) "stuck") (list_prod units units).
(* a finite-domain theorem re-proved against the regenerated term *)
Definition idx_ok (m : string) (x y : Z) := match run [("plot_mode", VEnum "PlotMode" m)] plot_mode_to_idx_body with
  | Returned (VTuple [VInt a; VInt b; _]) => Z.eqb a x && Z.eqb b y | _ => false end.
Theorem plot_idx_table : idx_ok "xy" 0 1 && idx_ok "xz" 0 2 && idx_ok "yx" 1 0 && idx_ok "yz" 1 2 && idx_ok "zx" 2 0 && idx_ok "zy" 2 1 && idx_ok "xyz" 0 1 = true.
Proof. vm_compute. reflexivity. Qed.
