(* C04 - trajectory alignment. Proofs in Evo.AlignProofs (on top of UmeyamaProofs / TrajProofs). *)
From Coq Require Import Reals List Bool.
From Evo Require Import Num Linalg LinalgR Lie LieProofs Umeyama UmeyamaProofs Traj Align AlignProofs.
From Evo Require AlignPath.
From EvoGen Require StepsC04.
Import ListNotations.
Local Open Scope R_scope.

(* applies exactly the returned similarity, computed from the first n pairs only *)
Theorem C04_alignment_applies_returned_transform_from_first_n :
  forall svd eps (P ref : list PoseR) cs os n P' r t c, @align R _ svd eps P ref cs os n = Some (P', (r, t, c)) ->
  umeyama svd eps (cs || os) (take n (positions P)) (take n (positions ref)) = Some (r, t, c) /\
  P' = (if os then map (fun p => mkPose (prot p) (vscale c (ptr p))) P else map (sim_pose c r t) P) /\
  (cs || os = false -> c = 1 -> P' = map (sim_pose 1 r t) P).
Proof. exact align_applies_result. Qed.
Print Assumptions C04_alignment_applies_returned_transform_from_first_n.

Theorem C04_alignment_refused_iff_umeyama_refuses :
  forall svd eps (P ref : list PoseR) cs os n,
  @align R _ svd eps P ref cs os n = None <->
  umeyama svd eps (cs || os) (take n (positions P)) (take n (positions ref)) = None.
Proof. exact align_refuses_iff_umeyama_refuses. Qed.
Print Assumptions C04_alignment_refused_iff_umeyama_refuses.

(* over the poses used: never worse than before, never worse than any other transformation of the class *)
Theorem C04_never_worse_and_best_in_class :
  forall svd eps, 0 <= eps -> forall (P ref : list PoseR) cs n P' r t c,
  svd_at svd (cov_xy (take n (positions P)) (take n (positions ref))) ->
  @align R _ svd eps P ref cs false n = Some (P', (r, t, c)) ->
  let x := take n (positions P) in let y := take n (positions ref) in
  let x' := map (apply_sim c r t) x in
  take n (positions P') = x' /\
  resid 1 I3 V0 x' y <= resid 1 I3 V0 x y /\
  (cs = false -> forall R' t', SO3 R' -> resid 1 I3 V0 x' y <= resid 1 R' t' x y) /\
  (cs = true -> forall c' R' t', SO3 R' -> 0 < c' -> resid 1 I3 V0 x' y <= resid c' R' t' x y).
Proof. exact align_never_worse_and_best_in_class. Qed.
Print Assumptions C04_never_worse_and_best_in_class.

(* second alignment: PARTIAL - the identity is optimal for the aligned data (no transformation of the class lowers
   the residual); that the parameters returned by a second run ARE the identity needs uniqueness: not proved *)
Theorem C04_align_twice_identity_partial :
  forall svd eps, 0 <= eps -> forall (P ref : list PoseR) cs n P' r t c,
  svd_at svd (cov_xy (take n (positions P)) (take n (positions ref))) ->
  @align R _ svd eps P ref cs false n = Some (P', (r, t, c)) ->
  let x' := take n (positions P') in let y := take n (positions ref) in
  (cs = false -> forall R' t', SO3 R' -> resid 1 I3 V0 x' y <= resid 1 R' t' x' y) /\
  (cs = true -> forall c' R' t', SO3 R' -> 0 < c' -> resid 1 I3 V0 x' y <= resid c' R' t' x' y).
Proof. exact align_twice_identity_partial. Qed.
Print Assumptions C04_align_twice_identity_partial.

Theorem C04_origin_alignment :
  forall (P ref : list PoseR) P' To, Forall SE3 P -> Forall SE3 ref -> align_origin P ref = Some (P', To) ->
  SE3 To /\ P' = map (pmul To) P /\ hd pI P' = hd pI ref /\
  (forall a b, In a P -> In b P -> relative_se3 (pmul To a) (pmul To b) = relative_se3 a b).
Proof. exact origin_maps_first_pose_and_preserves_relative. Qed.
Print Assumptions C04_origin_alignment.

(* the matrix recorded in an evo_ape / evo_rpe result maps the unaligned estimate onto the stored one,
   for every combination of align / correct_scale / align_origin / n *)
Theorem C04_recorded_matrix_maps_estimate :
  forall svd eps (P ref : list PoseR) da cs dorig n P' A,
  @align_stage R _ svd eps P ref da cs dorig n = Some (P', Some A) -> positions P' = map (apply4 A) (positions P).
Proof. exact recorded_matrix_maps_estimate. Qed.
Print Assumptions C04_recorded_matrix_maps_estimate.

(* translator tie: order scale -> transform inside PosePath3D.align, origin transform built as ref_0 * est_0^-1 and
   applied from the left, and `only_scale = correct_scale and not align` in both CLIs, re-extracted from the source *)
From Coq Require Import String.
Local Open Scope string_scope.
Theorem C04_wiring_trajectory_align : StepsC04.trajectory_align =
  ["if[n == -1] geometry.umeyama_alignment(self.positions_xyz.T, traj_ref.positions_xyz.T, with_scale)";
   "else[n == -1] geometry.umeyama_alignment(self.positions_xyz[:n, :].T, traj_ref.positions_xyz[:n, :].T, with_scale)";
   "if[correct_only_scale] self.scale(s)";
   "else[correct_only_scale] if[correct_scale] self.scale(s)";
   "else[correct_only_scale] if[correct_scale] self.transform(lie.se3(r_a, t_a))";
   "else[correct_only_scale] if[correct_scale] lie.se3(r_a, t_a)";
   "else[correct_only_scale] else[correct_scale] self.transform(lie.se3(r_a, t_a))";
   "else[correct_only_scale] else[correct_scale] lie.se3(r_a, t_a)"].
Proof. reflexivity. Qed.
Print Assumptions C04_wiring_trajectory_align.

Theorem C04_wiring_trajectory_align_origin : StepsC04.trajectory_align_origin =
  ["np.dot(traj_ref_origin, lie.se3_inverse(traj_origin))";
   "lie.se3_inverse(traj_origin)";
   "self.transform(to_ref_origin)"].
Proof. reflexivity. Qed.
Print Assumptions C04_wiring_trajectory_align_origin.

Theorem C04_wiring_only_scale_wiring : StepsC04.only_scale_wiring =
  ["main_ape: only_scale = correct_scale and (not align)";
   "main_rpe: only_scale = correct_scale and (not align)"].
Proof. reflexivity. Qed.
Print Assumptions C04_wiring_only_scale_wiring.

(* ---- centroids (added after every property had a check): a (not scale-only) alignment brings the centroid of the
   estimate positions used for the fit onto the centroid of the reference positions used for the fit ---- *)
Theorem C04_alignment_matches_centroids_of_the_poses_used : forall svd eps (P ref : list PoseR) cs n P' r t c,
  take n (positions P) <> [] -> @align R _ svd eps P ref cs false n = Some (P', (r, t, c)) ->
  mean (take n (positions P')) = mean (take n (positions ref)).
Proof. exact align_matches_centroids. Qed.
Print Assumptions C04_alignment_matches_centroids_of_the_poses_used.

(* ---- path length (added after every property had a check): a (not scale-only) alignment multiplies the path length of the
   estimate by the returned scale, which is 1 without scale correction ---- *)
Theorem C04_alignment_scales_path_length_by_returned_scale : forall svd eps (P ref : list PoseR) cs n P' r t c, 0 <= eps ->
  svd_at svd (cov_xy (take n (positions P)) (take n (positions ref))) ->
  @align R _ svd eps P ref cs false n = Some (P', (r, t, c)) ->
  @path_length R _ (positions P') = c * @path_length R _ (positions P) /\ (cs = false -> c = 1).
Proof. exact AlignPath.align_scales_path_length. Qed.
Print Assumptions C04_alignment_scales_path_length_by_returned_scale.
