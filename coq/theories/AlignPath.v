(* AlignPath.v - path length under similarities and alignments (C04; on top of AlignProofs and TrajProofs). *)
From Coq Require Import Reals Lra Psatz Lia List Arith Bool.
From Evo Require Import Num Linalg LinalgR Lie LieProofs Umeyama UmeyamaProofs Traj TrajProofs Align AlignProofs.
Import ListNotations.
Local Open Scope R_scope.

(* ---------- a similarity multiplies the path length by |c|; so does an alignment (c = 1 without scale correction) ---------- *)
Lemma apply_sim_factor c (r : M3R) t (xs : list V3R) :
  map (apply_sim c r t) xs = map (move_pos I3 t) (map (vscale c) (map (move_pos r V0) xs)).
Proof.
  rewrite !map_map. apply map_ext. intros x. unfold apply_sim, move_pos. rewrite mv_I, vadd_0_r. reflexivity.
Qed.
Theorem path_length_similarity c (r : M3R) t (xs : list V3R) : Orth r ->
  @path_length R _ (map (apply_sim c r t) xs) = Rabs c * @path_length R _ xs.
Proof.
  intros O. rewrite apply_sim_factor.
  destruct (distances_path_length_rigid_invariant I3 t (map (vscale c) (map (move_pos r V0) xs)) Orth_I) as [_ E1].
  rewrite E1, path_length_scale.
  destruct (distances_path_length_rigid_invariant r V0 xs O) as [_ E2]. now rewrite E2.
Qed.
Theorem align_scales_path_length svd eps (P ref : list PoseR) cs n P' r t c : 0 <= eps ->
  svd_at svd (cov_xy (take n (positions P)) (take n (positions ref))) ->
  @align R _ svd eps P ref cs false n = Some (P', (r, t, c)) ->
  @path_length R _ (positions P') = c * @path_length R _ (positions P) /\ (cs = false -> c = 1).
Proof.
  intros He Hsvd H. destruct (align_applies_result svd eps P ref cs false n P' r t c H) as (U & EP & _).
  destruct (umeyama_spec svd eps He _ _ _ r t c Hsvd U) as (_ & [Or _] & Hc & H1 & _).
  subst P'. rewrite positions_sim, (path_length_similarity c r t _ Or), (Rabs_pos_eq c) by lra.
  split; [reflexivity|]. intros ->. apply H1. reflexivity.
Qed.
