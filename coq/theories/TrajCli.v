(* TrajCli.v - the evo_traj processing tail (loaded transformation, optional inversion, projection) as
   operations of the Traj state machine, and the two-sided inverse law for loaded SE(3)/Sim(3) matrices (C15). *)
From Coq Require Import Reals Lra List Bool.
From Evo Require Import Num Linalg LinalgR Lie LieProofs Traj TrajProofs.
Import ListNotations.

Section Defs.
Context {T : Type} {ops : NumOps T}.
(* --invert_transform: lie.sim3_inverse(transform), scale = cbrt(det) supplied by [cbrt] *)
Definition invert_loaded (cbrt : T -> T) (A : Pose T) : Pose T := sim3_inverse_with (cbrt (det (prot A))) A.
(* ops applied to every trajectory after alignment: transform (left | right, propagate) then projection *)
Definition tail_ops (tf : option (Pose T * bool * bool * bool)) (pl : option Plane) : list (@op T) :=
  (match tf with Some (A, rgt, prop, sim) => [Transform A rgt (rgt && prop) sim] | None => [] end) ++
  (match pl with Some p => [Project p] | None => [] end).
End Defs.

Local Open Scope R_scope.
(* the inverted transformation is the true inverse of every loaded SE(3) (s = 1) or Sim(3) matrix *)
Theorem invert_loaded_two_sided (cbrt : R -> R) (r : M3R) (t : V3R) (s : R) :
  (forall x, cbrt x * cbrt x * cbrt x = x) -> SO3 r -> 0 < s ->
  pmul (invert_loaded cbrt (sim3 r t s)) (sim3 r t s) = pI /\ pmul (sim3 r t s) (invert_loaded cbrt (sim3 r t s)) = pI.
Proof.
  intros Hc Hr Hs. unfold invert_loaded.
  assert (E : cbrt (det (prot (sim3 r t s))) = s) by (apply (sim3_scale_recovered r t s _ Hr); apply Hc).
  rewrite E. destruct Hr as [O _]. assert (Hn : s <> 0) by (intros Z; rewrite Z in Hs; exact (Rlt_irrefl 0 Hs)).
  split; [apply sim3_inverse_left|apply sim3_inverse_right]; assumption.
Qed.
(* the old code path (se3_inverse on a Sim(3) matrix) is NOT an inverse as soon as s <> 1: regression witness F4 *)
Theorem se3_inverse_on_sim3_refuted : exists (r : M3R) (t : V3R) (s : R), SO3 r /\ 0 < s /\
  pmul (se3_inverse (sim3 r t s)) (sim3 r t s) <> pI.
Proof.
  exists I3, V0, 2. split; [apply SO3_I|]. split; [lra|]. intros E.
  apply (f_equal (fun p => m00 (prot p))) in E. revert E. unfold se3_inverse. lin_unfold. lra.
Qed.
(* without processing options nothing is applied; with them: transform first, projection last *)
Theorem tail_ops_none : @tail_ops R None None = [].
Proof. reflexivity. Qed.
Theorem tail_ops_order A rgt prop sim pl :
  @tail_ops R (Some (A, rgt, prop, sim)) (Some pl) = [Transform A rgt (rgt && prop) sim; Project pl].
Proof. reflexivity. Qed.
