(* Codec.v - the decimal <-> binary64 scalar codec behind numpy.savetxt('%.18e') / float():
   printing a binary64 value correctly rounded to p >= 18 significant decimal digits and reading the
   decimal back correctly rounded to binary64 is the identity - for every binary64 real (normal,
   subnormal, negative, zero) and every tie-breaking rule on either side.  On Flocq's formats:
   binary64 = generic_format radix2 (FLT_exp (-1074) 53), p-digit decimals = FLX_exp p in radix 10.
   What is NOT covered here (oracle, measured bit-for-bit by the C06 correspondence): that CPython's
   '%.18e' % x and float(s) are these correctly rounding functions, and the sign of zero. *)
From Coq Require Import Reals ZArith Lra Lia Psatz.
From Flocq Require Import Core.
Local Open Scope R_scope.

Definition radix10 : radix := Build_radix 10 (refl_equal _).
Notation fexp64 := (FLT_exp (-1074) 53).
#[local] Instance prec53 : Prec_gt_0 53. Proof. unfold Prec_gt_0; lia. Qed.
Definition b64 (x : R) := generic_format radix2 fexp64 x.
Definition rnd64 (c : Z -> bool) (y : R) := round radix2 fexp64 (Znearest c) y.

Section Dec.
Variable p : Z.
Hypothesis Hp : (18 <= p)%Z.
#[local] Instance precp : Prec_gt_0 p. Proof. unfold Prec_gt_0; lia. Qed.
Definition rnd_dec (c : Z -> bool) (x : R) := round radix10 (FLX_exp p) (Znearest c) x.

Lemma ulp64_lower x : 0 < x -> x * bpow radix2 (-53) < ulp radix2 fexp64 x.
Proof.
  intros Hx. rewrite ulp_neq_0 by lra. unfold cexp, FLT_exp.
  apply Rlt_le_trans with (bpow radix2 (mag radix2 x - 53)).
  - replace (mag radix2 x - 53)%Z with (mag radix2 x + -53)%Z by ring. rewrite bpow_plus.
    apply Rmult_lt_compat_r; [apply bpow_gt_0|].
    pose proof (bpow_mag_gt radix2 x) as H. rewrite Rabs_pos_eq in H by lra. exact H.
  - apply bpow_le. lia.
Qed.

Lemma dec_err c x : 0 < x -> Rabs (rnd_dec c x - x) <= /2 * (x * bpow radix10 (1 - p)).
Proof.
  intros Hx. unfold rnd_dec.
  eapply Rle_trans; [apply error_le_half_ulp; typeclasses eauto|].
  apply Rmult_le_compat_l; [lra|].
  pose proof (ulp_FLX_le radix10 p x) as H. rewrite Rabs_pos_eq in H by lra. exact H.
Qed.

Lemma pow10_small : 2 * bpow radix10 (1 - p) < bpow radix2 (-53).
Proof.
  apply Rle_lt_trans with (2 * bpow radix10 (-17)).
  - apply Rmult_le_compat_l; [lra|]. apply bpow_le. lia.
  - unfold bpow. simpl. unfold Z.pow_pos; simpl. lra.
Qed.

Lemma gap_below x : 0 < x -> b64 x -> ulp radix2 fexp64 x / 2 <= x - pred radix2 fexp64 x.
Proof.
  intros Hx Fx.
  pose proof (pred_plus_ulp radix2 fexp64 x Hx Fx) as E.
  assert (G : x - pred radix2 fexp64 x = ulp radix2 fexp64 (pred radix2 fexp64 x)) by lra.
  rewrite G.
  destruct (ulp_FLT_pred_pos radix2 (-1074) 53 x Fx (Rlt_le _ _ Hx)) as [H|[_ H]]; rewrite H.
  - pose proof (ulp_ge_0 radix2 fexp64 x). lra.
  - simpl. lra.
Qed.

Theorem roundtrip_pos c1 c2 x : 0 < x -> b64 x -> rnd64 c2 (rnd_dec c1 x) = x.
Proof.
  intros Hx Fx. set (y := rnd_dec c1 x).
  pose proof (dec_err c1 x Hx) as E. fold y in E.
  pose proof (ulp64_lower x Hx) as U. pose proof pow10_small as S.
  assert (D : Rabs (y - x) < ulp radix2 fexp64 x / 4).
  { eapply Rle_lt_trans; [exact E|].
    assert (x * (2 * bpow radix10 (1 - p)) < x * bpow radix2 (-53)) by (apply Rmult_lt_compat_l; lra).
    lra. }
  apply Rabs_def2 in D. destruct D as [D1 D2].
  pose proof (ulp_ge_0 radix2 fexp64 x) as U0.
  apply Rle_antisym.
  - apply round_N_le_midp; [typeclasses eauto | exact Fx |].
    rewrite succ_eq_pos by lra. lra.
  - apply round_N_ge_midp; [typeclasses eauto | exact Fx |].
    pose proof (gap_below x Hx Fx). lra.
Qed.

Theorem roundtrip c1 c2 x : b64 x -> rnd64 c2 (rnd_dec c1 x) = x.
Proof.
  intros Fx. destruct (Rtotal_order x 0) as [N|[Z|P]].
  - assert (Hm : 0 < - x) by lra.
    assert (Fm : b64 (- x)) by (apply generic_format_opp; exact Fx).
    pose proof (roundtrip_pos (fun t => negb (c1 (- (t + 1))%Z)) (fun t => negb (c2 (- (t + 1))%Z)) (- x) Hm Fm) as H.
    unfold rnd64, rnd_dec in *.
    rewrite <- (Ropp_involutive x) at 1.
    rewrite (round_N_opp radix10 (FLX_exp p) c1 (- x)).
    rewrite (round_N_opp radix2 fexp64 c2).
    rewrite H. ring.
  - subst x. unfold rnd64, rnd_dec. rewrite !round_0; try typeclasses eauto. reflexivity.
  - apply roundtrip_pos; assumption.
Qed.
End Dec.
