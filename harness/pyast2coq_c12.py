"""Translator tie of C12: dump the unit tables and PE.change_unit of the repo under test as terms of
the deep embedding Evo.PyAstC12 (coq/generated/UnitsGen.v).  Fail-closed: any AST node kind that is
not known raises Unsupported, which the caller reports as a broken tie."""
import ast
import os
from fractions import Fraction


class Unsupported(Exception):
    pass


def s(x):
    if not all(32 <= ord(c) < 127 for c in x):
        raise Unsupported("non-ASCII / control character in string constant %r" % x)
    return '"' + x.replace('"', '""') + '"'


def lst(xs):
    return "[" + "; ".join(xs) + "]"


CMP = {ast.Eq: "CEq", ast.NotEq: "CNe", ast.Is: "CIs", ast.IsNot: "CIsNot", ast.In: "CIn", ast.NotIn: "CNotIn",
       ast.Lt: "CLt", ast.Gt: "CGt", ast.LtE: "CLe", ast.GtE: "CGe"}
BIN = {ast.Add: "BAdd", ast.Sub: "BSub", ast.Mult: "BMul", ast.Div: "BDiv"}


def E(e):
    if isinstance(e, ast.Constant):
        v = e.value
        if v is None:
            return "ENone"
        if isinstance(v, bool):
            return "(EBool %s)" % str(v).lower()
        if isinstance(v, int):
            return "(EInt (%d)%%Z)" % v
        if isinstance(v, float):
            f = Fraction(repr(v))  # the decimal literal as written -> exact rational
            return "(ENum (%d # %d)%%Q)" % (f.numerator, f.denominator)
        if isinstance(v, str):
            return "(EStr %s)" % s(v)
        raise Unsupported(ast.dump(e))
    if isinstance(e, ast.Name):
        return "(EName %s)" % s(e.id)
    if isinstance(e, ast.Attribute):
        return "(EAttr %s %s)" % (E(e.value), s(e.attr))
    if isinstance(e, ast.Compare):
        if len(e.ops) != 1:
            raise Unsupported("chained comparison")
        if type(e.ops[0]) not in CMP:
            raise Unsupported(type(e.ops[0]).__name__)
        return "(ECmp %s %s %s)" % (CMP[type(e.ops[0])], E(e.left), E(e.comparators[0]))
    if isinstance(e, ast.BoolOp):
        op = "EAnd" if isinstance(e.op, ast.And) else "EOr"
        return "(%s %s)" % (op, lst([E(v) for v in e.values]))
    if isinstance(e, ast.UnaryOp):
        if isinstance(e.op, ast.Not):
            return "(ENot %s)" % E(e.operand)
        if isinstance(e.op, ast.USub):
            return "(ENeg %s)" % E(e.operand)
        raise Unsupported(ast.dump(e))
    if isinstance(e, ast.BinOp):
        if type(e.op) not in BIN:
            raise Unsupported(type(e.op).__name__)
        return "(EBin %s %s %s)" % (BIN[type(e.op)], E(e.left), E(e.right))
    if isinstance(e, ast.IfExp):
        return "(EIf %s %s %s)" % (E(e.test), E(e.body), E(e.orelse))
    if isinstance(e, ast.Tuple):
        return "(ETuple %s)" % lst([E(v) for v in e.elts])
    if isinstance(e, ast.List):
        return "(EList %s)" % lst([E(v) for v in e.elts])
    if isinstance(e, ast.Set):
        return "(ESet %s)" % lst([E(v) for v in e.elts])
    if isinstance(e, ast.Dict):
        if any(k is None for k in e.keys):
            raise Unsupported("dict unpacking")
        return "(EDict %s)" % lst(["(%s, %s)" % (E(k), E(v)) for k, v in zip(e.keys, e.values)])
    if isinstance(e, ast.Subscript):
        return "(ESub %s %s)" % (E(e.value), E(e.slice))
    if isinstance(e, ast.Call):
        if any(isinstance(a, ast.Starred) for a in e.args) or any(k.arg is None for k in e.keywords):
            raise Unsupported("starred argument")
        kws = lst(["(%s, %s)" % (s(k.arg), E(k.value)) for k in e.keywords])
        return "(ECall %s %s %s)" % (E(e.func), lst([E(a) for a in e.args]), kws)
    if isinstance(e, ast.JoinedStr):
        parts = []
        for v in e.values:
            if isinstance(v, ast.Constant):
                parts.append("(EStr %s)" % s(v.value))
            elif isinstance(v, ast.FormattedValue) and v.format_spec is None and v.conversion == -1:
                parts.append(E(v.value))
            else:
                raise Unsupported(ast.dump(v))
        return "(EFStr %s)" % lst(parts)
    if (isinstance(e, ast.GeneratorExp) and len(e.generators) == 1 and not e.generators[0].ifs
            and not e.generators[0].is_async and isinstance(e.generators[0].target, ast.Name)):
        g = e.generators[0]
        return "(EGen %s %s %s)" % (E(e.elt), s(g.target.id), E(g.iter))
    raise Unsupported(type(e).__name__)


def tgt(t):
    if isinstance(t, ast.Name):
        return s(t.id)
    if isinstance(t, ast.Attribute) and isinstance(t.value, ast.Name):
        return s(t.value.id + "." + t.attr)
    raise Unsupported("assignment target " + ast.dump(t))


def is_logging(st):
    return (isinstance(st, ast.Expr) and isinstance(st.value, ast.Call) and isinstance(st.value.func, ast.Attribute)
            and isinstance(st.value.func.value, ast.Name) and st.value.func.value.id == "logger")


def S(st):
    if isinstance(st, ast.Assign) and len(st.targets) == 1:
        return "(SAssign %s %s)" % (tgt(st.targets[0]), E(st.value))
    if isinstance(st, ast.AnnAssign) and st.value is not None:
        return "(SAssign %s %s)" % (tgt(st.target), E(st.value))
    if isinstance(st, ast.AugAssign):
        if type(st.op) not in BIN:
            raise Unsupported(type(st.op).__name__)
        return "(SAug %s %s %s)" % (BIN[type(st.op)], tgt(st.target), E(st.value))
    if isinstance(st, ast.If):
        return "(SIf %s %s %s)" % (E(st.test), B(st.body), B(st.orelse))
    if isinstance(st, ast.Return):
        return "(SReturn %s)" % (E(st.value) if st.value else "ENone")
    if isinstance(st, ast.Raise):
        if st.exc is None or st.cause is not None:
            raise Unsupported("bare raise / raise from")
        return "(SRaise %s)" % E(st.exc)
    if isinstance(st, ast.Expr):
        if isinstance(st.value, ast.Constant) and isinstance(st.value.value, str):
            return None  # docstring
        return "(SExpr %s)" % E(st.value)
    raise Unsupported(type(st).__name__)


def B(body):
    out = []
    for st in body:
        if is_logging(st):
            continue
        r = S(st)
        if r is not None:
            out.append(r)
    return lst(out)


def find(tree, qual):
    node = tree
    for p in qual.split("."):
        hits = [n for n in node.body if isinstance(n, (ast.FunctionDef, ast.ClassDef)) and n.name == p]
        if len(hits) != 1:
            raise Unsupported("cannot locate %s (%d candidates for %s)" % (qual, len(hits), p))
        node = hits[0]
    return node


def dump_fn(tree, qual, name):
    fn = find(tree, qual)
    a = fn.args
    if a.vararg or a.kwarg or a.kwonlyargs or a.posonlyargs:
        raise Unsupported("signature of " + qual)
    params = lst([s(x.arg) for x in a.args])
    return ("Definition %s_params : list string := %s.\nDefinition %s_body : list stmt := %s.\n"
            % (name, params, name, B(fn.body)))


def dump_enum(tree, cls, name):
    c = find(tree, cls)
    items = []
    for st in c.body:
        if isinstance(st, ast.Expr) and isinstance(st.value, ast.Constant) and isinstance(st.value.value, str):
            continue
        if not (isinstance(st, ast.Assign) and len(st.targets) == 1 and isinstance(st.targets[0], ast.Name)):
            raise Unsupported("enum body statement " + type(st).__name__)
        items.append("(%s, %s)" % (s(st.targets[0].id), E(st.value)))
    return "Definition %s_members : list (string * expr) := %s.\n" % (name, lst(items))


def dump_const(tree, var, name):
    hits = [n for n in tree.body if isinstance(n, ast.Assign) and len(n.targets) == 1
            and isinstance(n.targets[0], ast.Name) and n.targets[0].id == var]
    if len(hits) != 1:
        raise Unsupported("module constant %s: %d assignments" % (var, len(hits)))
    return "Definition %s : expr := %s.\n" % (name, E(hits[0].value))


def dump_unit_dispatch(tree, qual, name):
    """The `if pose_relation ...: self.unit = ...` chain of APE/RPE.__init__."""
    fn = find(tree, qual)
    hits = [st for st in fn.body if isinstance(st, ast.If)
            and any(isinstance(n, ast.Name) and n.id == "pose_relation" for n in ast.walk(st.test))
            and any(isinstance(n, ast.Attribute) and n.attr == "unit" for n in ast.walk(st))]
    if len(hits) != 1:
        raise Unsupported("%s: %d pose_relation -> unit dispatch statements" % (qual, len(hits)))
    return "Definition %s : list stmt := %s.\n" % (name, B(hits))


# ---------------------------------------------------------------------------- step order of ape()/rpe()
def _is_first_plus_delta_ids(v):
    return (isinstance(v, ast.BinOp) and isinstance(v.op, ast.Add) and isinstance(v.left, ast.List)
            and len(v.left.elts) == 1 and isinstance(v.left.elts[0], ast.Constant) and v.left.elts[0].value == 0
            and type(v.left.elts[0].value) is int
            and isinstance(v.right, ast.Attribute) and v.right.attr == "delta_ids")


def _slice_kind(e):
    """('sliced', base) for base[1:], ('whole', e) for anything that is not a subscript."""
    if isinstance(e, ast.Subscript):
        sl = e.slice
        if (isinstance(sl, ast.Slice) and isinstance(sl.lower, ast.Constant) and sl.lower.value == 1
                and type(sl.lower.value) is int and sl.upper is None and sl.step is None):
            return "sliced", e.value
        return "subscript:" + ast.unparse(sl), e.value
    return "whole", e


def steps(tree, fname):
    """The result-relevant steps of ape()/rpe() in source order (statement by statement, compound
    statements entered in order): process_data, change_unit, title=str(metric), get_result,
    ids=[0]+delta_ids, reduce_to_ids <traj> <ids|?expr>, add_trajectory <traj>,
    seconds_from_start=..., add_np_array <name> <whole|sliced> <expr>."""
    fn = find(tree, fname)
    out = []
    ids_names = set()

    def simple(st):
        if isinstance(st, ast.Assign) and len(st.targets) == 1 and isinstance(st.targets[0], ast.Name):
            name = st.targets[0].id
            if (name == "title" and isinstance(st.value, ast.Call) and isinstance(st.value.func, ast.Name)
                    and st.value.func.id == "str" and len(st.value.args) == 1):
                out.append("title=str(metric)")
            if _is_first_plus_delta_ids(st.value):
                ids_names.add(name)
                out.append("ids=[0]+delta_ids")
            elif name in ids_names:
                ids_names.discard(name)
            if name == "seconds_from_start":
                out.append("seconds_from_start=" + ast.unparse(st.value).replace("\n", " "))
        for c in _calls(st):
            f = c.func
            if not isinstance(f, ast.Attribute):
                continue
            if f.attr in ("process_data", "change_unit", "get_result"):
                out.append(f.attr)
            elif f.attr == "reduce_to_ids":
                a0 = c.args[0] if len(c.args) == 1 and not c.keywords else None
                arg = "ids" if isinstance(a0, ast.Name) and a0.id in ids_names else "?" + (ast.unparse(a0) if a0 else "")
                out.append("reduce_to_ids %s %s" % (ast.unparse(f.value), arg))
            elif f.attr == "add_trajectory" and len(c.args) == 2:
                out.append("add_trajectory %s" % ast.unparse(c.args[1]))
            elif f.attr == "add_np_array" and len(c.args) == 2 and isinstance(c.args[0], ast.Constant):
                kind, base = _slice_kind(c.args[1])
                out.append("add_np_array %s %s %s" % (c.args[0].value, kind, ast.unparse(base)))

    def visit(st):
        if isinstance(st, (ast.If, ast.For, ast.While, ast.With, ast.Try)):
            for fld in ("body", "orelse", "finalbody"):
                for sub in getattr(st, fld, []):
                    visit(sub)
            for h in getattr(st, "handlers", []):
                for sub in h.body:
                    visit(sub)
        elif isinstance(st, (ast.FunctionDef, ast.ClassDef)):
            raise Unsupported("nested definition in " + fname)
        else:
            simple(st)

    for st in fn.body:
        visit(st)
    return out


def _calls(node):
    for n in ast.walk(node):
        if isinstance(n, ast.Call):
            yield n


def generate(repo):
    units = ast.parse(open(os.path.join(repo, "evo", "core", "units.py")).read())
    metrics = ast.parse(open(os.path.join(repo, "evo", "core", "metrics.py")).read())
    main_ape = ast.parse(open(os.path.join(repo, "evo", "main_ape.py")).read())
    main_rpe = ast.parse(open(os.path.join(repo, "evo", "main_rpe.py")).read())
    out = ("(* GENERATED by harness/pyast2coq_c12.py from evo/core/units.py, evo/core/metrics.py,\n"
           "   evo/main_ape.py, evo/main_rpe.py of the repository under test - do not edit. *)\n"
           "From Coq Require Import List String ZArith QArith.\nFrom Evo Require Import PyAstC12.\n"
           "Import ListNotations.\nOpen Scope string_scope.\n\n")
    out += dump_enum(units, "Unit", "Unit")
    out += dump_const(units, "LENGTH_UNITS", "LENGTH_UNITS")
    out += dump_const(units, "ANGLE_UNITS", "ANGLE_UNITS")
    out += dump_const(units, "METER_SCALE_FACTORS", "METER_SCALE_FACTORS")
    out += dump_enum(metrics, "PoseRelation", "PoseRelation")
    out += dump_fn(metrics, "PE.change_unit", "change_unit")
    out += dump_unit_dispatch(metrics, "APE.__init__", "ape_unit_dispatch")
    out += dump_unit_dispatch(metrics, "RPE.__init__", "rpe_unit_dispatch")
    out += "Definition ape_steps : list string := %s.\n" % lst([s(x) for x in steps(main_ape, "ape")])
    out += "Definition rpe_steps : list string := %s.\n" % lst([s(x) for x in steps(main_rpe, "rpe")])
    return out


def regenerate_file(repo, path):
    """Rewrite `path` only when the content changes. Returns (changed, text)."""
    text = generate(repo)
    old = open(path).read() if os.path.exists(path) else None
    if old != text:
        os.makedirs(os.path.dirname(path), exist_ok=True)
        tmp = path + ".tmp%d" % os.getpid()
        with open(tmp, "w") as f:
            f.write(text)
        os.replace(tmp, path)
        return True, text
    return False, text


if __name__ == "__main__":
    import sys
    print(generate(sys.argv[1] if len(sys.argv) > 1 else "/repo"))
