(* UmeyamaTie.v - translator tie of property C03.
   EvoGen.UmeyamaGen.umeyama_alignment_gen is re-translated from evo/core/geometry.py on every run
   (harness/pyast_np.py, statement by statement, numpy vocabulary of Evo.NpDsl).  The theorems below are
   re-checked against it: over the reals the translated function IS the hand-written model Evo.Umeyama.umeyama
   (for every SVD oracle whose singular values come out in non-increasing order at the queried matrix), hence every
   theorem proved about the model (proper rotation, optimality, refusals, exact data ...) holds of the translated
   source.  The reduction orders differ (numpy accumulates from the left, the model folds from the right; numpy divides
   the column sum by n, the model multiplies by 1/n; the source squares a square root): that is exactly what is proved
   equal here. *)
From Coq Require Import Reals List Arith Bool ZArith Lra Lia.
From Evo Require Import Num Linalg LinalgR Umeyama UmeyamaProofs NpDsl.
From EvoGen Require Import UmeyamaGen.
Import ListNotations.
Local Open Scope num_scope.
Local Open Scope R_scope.

Notation V3R := (V3 R).
Notation M3R := (M3 R).

Section Tie.
Variable svd : M3R -> M3R * V3R * M3R.
Variable eps : R.

(* ---- reductions: left folds of the source = right folds of the model ---- *)
Lemma fold_left_vadd (l : list V3R) (a : V3R) : fold_left vadd l a = vadd a (@vsum R _ l).
Proof.
  revert a. induction l as [|v l IH]; intros a; cbn [fold_left vsum].
  - destruct a; v3eq.
  - rewrite IH. destruct a, v, (@vsum R _ l); v3eq.
Qed.
Lemma fold_left_nadd (l : list R) (a : R) : fold_left nadd l a = a + @tsum R _ l.
Proof.
  revert a. induction l as [|v l IH]; intros a; cbn [fold_left tsum]; rnum; [ring|]. rewrite IH. rnum. ring.
Qed.
Lemma fold_left_madd_map {A} (g : A -> M3R) (l : list A) (a : M3R) :
  fold_left (fun acc i => madd acc (g i)) l a = madd a (@msum R _ (map g l)).
Proof.
  revert a. induction l as [|v l IH]; intros a; cbn [fold_left map msum].
  - destruct a; m3eq.
  - rewrite IH. destruct a, (g v), (@msum R _ (map g l)); m3eq.
Qed.

Lemma madd_M0_l (m : M3R) : madd M0 m = m.
Proof. destruct m; m3eq. Qed.

(* x.mean(axis=1) *)
Lemma np_mean_eq (x : list V3R) : np_mean_axis1 x = @mean R _ x.
Proof.
  unfold np_mean_axis1, np_sum_axis1, mean, ncount, np_of_nat. rewrite fold_left_vadd.
  destruct (@vsum R _ x) as [a b c]. lin_unfold. rnum. f_equal; unfold Rdiv; ring.
Qed.

(* 1/n * ||x - mean_x||_F ** 2 *)
Lemma tsum_nrm2_nonneg (l : list V3R) : 0 <= @tsum R _ (map nrm2 l).
Proof.
  induction l as [|v l IH]; cbn [map tsum]; rnum; [lra|].
  assert (0 <= nrm2 v) by (destruct v; lin_unfold; rnum; nra). lra.
Qed.
Lemma np_sigma_eq (x : list V3R) :
  (n1 /! np_of_nat (np_ncols x)) *! np_pow2 (np_fro_norm (np_sub_col x (@mean R _ x))) = @sigma2 R _ x.
Proof.
  unfold sigma2, ncount, np_of_nat, np_ncols, np_pow2, np_fro_norm, np_sub_col, centred.
  rewrite fold_left_nadd. rnum. rewrite Rplus_0_l, sqrt_sqrt by apply tsum_nrm2_nonneg. reflexivity.
Qed.

(* the covariance loop *)
Lemma map_seq_nth_combine {A B C} (f : A -> B -> C) (dx : A) (dy : B) (x : list A) (y : list B) :
  length x = length y ->
  map (fun i => f (nth i x dx) (nth i y dy)) (seq 0 (length x)) = map (fun p => f (fst p) (snd p)) (combine x y).
Proof.
  revert y. induction x as [|a x IH]; intros [|b y] H; cbn [length] in *; try discriminate; [reflexivity|].
  cbn [seq map combine fst snd nth]. f_equal.
  rewrite <- seq_shift, map_map. cbn [nth]. apply IH. lia.
Qed.
Lemma np_cov_eq (x y : list V3R) : length x = length y ->
  mscale (n1 /! np_of_nat (np_ncols x))
    (py_for_range (np_ncols x)
       (fun outer_sum i => madd outer_sum (outer (vsub (np_col y i) (@mean R _ y)) (vsub (np_col x i) (@mean R _ x)))) M0)
  = @cov_xy R _ x y.
Proof.
  intros Hl. unfold cov_xy, py_for_range, np_ncols, np_col, ncount, np_of_nat.
  rewrite (fold_left_madd_map (fun i => outer (vsub (nth i y V0) (mean y)) (vsub (nth i x V0) (mean x)))).
  rewrite madd_M0_l.
  f_equal. f_equal. unfold centred.
  rewrite (map_seq_nth_combine (fun a b => outer (vsub b (mean y)) (vsub a (mean x))) V0 V0 x y Hl).
  rewrite combine_map2 by exact Hl. rewrite map_map. reflexivity.
Qed.

(* d.max() on sorted singular values, the tolerance and the rank test *)
Lemma np_max3_sorted (d : V3R) : vx d >= vy d -> vy d >= vz d -> np_max3 d = vx d.
Proof.
  intros G1 G2. unfold np_max3, py_max2. rnum.
  replace (Rltb (vx d) (vy d)) with false by (symmetry; apply Rltb_false; lra).
  replace (Rltb (vx d) (vz d)) with false by (symmetry; apply Rltb_false; lra). reflexivity.
Qed.
Lemma np_rank_eq (d : V3R) : vx d >= vy d -> vy d >= vz d ->
  Nat.ltb (np_count_gt d (py_max2 eps ((np_max3 d *! np_of_int 3) *! eps))) 2 = negb (@rank_ok R _ eps d).
Proof.
  intros G1 G2. rewrite (np_max3_sorted d G1 G2). unfold rank_ok, rank_tol, np_count_gt, py_max2, np_of_int.
  rewrite negb_involutive. reflexivity.
Qed.

(* S matrix, rotation, scale *)
Lemma np_rot_eq (u v : M3R) :
  mm (mm u (if (det u *! det v) <?! n0 then m3_set22 I3 (nopp n1) else I3)) v = mm (mm u (diag n1 n1 (@kabsch_sign R _ u v))) v.
Proof. unfold kabsch_sign. destruct (nltb _ _); reflexivity. Qed.
Lemma np_trace_eq (d : V3R) (u v : M3R) :
  tr (mm (np_diag3 d) (if (det u *! det v) <?! n0 then m3_set22 I3 (nopp n1) else I3)) = vx d +! vy d +! @kabsch_sign R _ u v *! vz d.
Proof. unfold kabsch_sign, np_diag3. destruct (nltb _ _); destruct d; lin_unfold; cbn; rnum; ring. Qed.

(* ---- the translated source is the model ---- *)
Theorem umeyama_gen_is_model (ws : bool) (x y : list V3R) :
  (let '(u, d, v) := svd (@cov_xy R _ x y) in vx d >= vy d /\ vy d >= vz d) ->
  umeyama_alignment_gen svd eps x y ws = @umeyama R _ svd eps ws x y.
Proof.
  intros Hs. unfold umeyama_alignment_gen, umeyama. cbv zeta. unfold np_shape_eqb.
  destruct (Nat.eqb (length x) (length y)) eqn:E; cbn [negb]; [|reflexivity].
  apply Nat.eqb_eq in E.
  rewrite !np_mean_eq, np_sigma_eq, (np_cov_eq x y E).
  destruct (svd (cov_xy x y)) as [[u d] v]. destruct Hs as [G1 G2].
  rewrite (np_rank_eq d G1 G2). destruct (negb (rank_ok eps d)); [reflexivity|].
  rewrite np_rot_eq, np_trace_eq. reflexivity.
Qed.
Corollary umeyama_gen_is_model_at (ws : bool) (x y : list V3R) : svd_at svd (@cov_xy R _ x y) ->
  umeyama_alignment_gen svd eps x y ws = @umeyama R _ svd eps ws x y.
Proof.
  intros S. apply umeyama_gen_is_model. unfold svd_at in S. destruct (svd (cov_xy x y)) as [[u d] v].
  destruct S as (_ & _ & _ & G1 & G2 & _). split; assumption.
Qed.
(* the main theorem of C03, restated for the translated source *)
Theorem umeyama_gen_spec (ws : bool) (x y : list V3R) r t c : 0 <= eps -> svd_at svd (@cov_xy R _ x y) ->
  umeyama_alignment_gen svd eps x y ws = Some (r, t, c) ->
  length x = length y /\ SO3 r /\ 0 < c /\ (ws = false -> c = 1) /\
  (ws = false -> forall R' t', SO3 R' -> resid c r t x y <= resid 1 R' t' x y) /\
  (ws = true -> forall c' R' t', SO3 R' -> 0 < c' -> resid c r t x y <= resid c' R' t' x y).
Proof.
  intros He S. rewrite (umeyama_gen_is_model_at ws x y S). exact (umeyama_spec svd eps He ws x y r t c S).
Qed.
End Tie.
