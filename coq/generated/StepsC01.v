(* GENERATED on every run by harness/steps.py from the current source - do not edit *)
From Coq Require Import String List.
Import ListNotations.
Local Open Scope string_scope.

Definition main_ape_ape : list string :=
  ["if[align or correct_scale] traj_est.align(traj_ref, correct_scale, only_scale, n=n_to_align)";
   "if[align or correct_scale] lie_algebra.sim3(r_a, t_a, s)";
   "if[align_origin] traj_est.align_origin(traj_ref)";
   "if[align_origin] to_ref_origin.dot(alignment_transformation)";
   "if[project_to_plane] traj_ref.project(project_to_plane)";
   "if[project_to_plane] traj_est.project(project_to_plane)";
   "metrics.APE(pose_relation)";
   "ape_metric.process_data(data)";
   "if[change_unit] ape_metric.change_unit(change_unit)";
   "ape_metric.get_result(ref_name, est_name)";
   "ape_result.add_trajectory(ref_name, traj_ref)";
   "ape_result.add_trajectory(est_name, traj_est)";
   "if[isinstance(traj_est, PoseTrajectory3D)] ape_result.add_np_array('seconds_from_start', seconds_from_start)";
   "if[isinstance(traj_est, PoseTrajectory3D)] ape_result.add_np_array('timestamps', traj_est.timestamps)";
   "if[isinstance(traj_est, PoseTrajectory3D)] ape_result.add_np_array('distances_from_start', traj_ref.distances)";
   "if[isinstance(traj_est, PoseTrajectory3D)] ape_result.add_np_array('distances', traj_est.distances)";
   "if[alignment_transformation is not None] ape_result.add_np_array('alignment_transformation_sim3', alignment_transformation)"].

Definition main_ape_run : list string :=
  ["common.load_trajectories(args)";
   "common.get_pose_relation(args)";
   "if[args.plot_full_ref] copy.deepcopy(traj_ref)";
   "common.downsample_or_filter(args, traj_ref, traj_est)";
   "if[isinstance(traj_ref, PoseTrajectory3D) and isinstance(traj_est, PoseTrajectory3D)] if[args.t_start or args.t_end] traj_ref.reduce_to_time_range(args.t_start, args.t_end)";
   "if[isinstance(traj_ref, PoseTrajectory3D) and isinstance(traj_est, PoseTrajectory3D)] sync.associate_trajectories(traj_ref, traj_est, args.t_max_diff, args.t_offset, first_name=ref_name, snd_name=est_name)";
   "ape(traj_ref=traj_ref, traj_est=traj_est, pose_relation=pose_relation, align=args.align, correct_scale=args.correct_scale, n_to_align=args.n_to_align, align_origin=args.align_origin, ref_name=ref_name, est_name=est_name, change_unit=change_unit, project_to_plane=plane)";
   "if[args.save_results] file_interface.save_res_file(args.save_results, result, confirm_overwrite=not args.no_warnings)"].

Definition downsample_or_filter : list string :=
  ["if[args.downsample] traj_ref.downsample(args.downsample)";
   "if[args.downsample] traj_est.downsample(args.downsample)";
   "if[args.motion_filter] traj_ref.motion_filter(distance_threshold, angle_threshold, True)";
   "if[args.motion_filter] traj_est.motion_filter(distance_threshold, angle_threshold, True)"].

