"""C20 - plots draw the trajectory's own coordinates on the labelled axes (evo/tools/plot.py).

Two ties to the source under test, both re-established on every run:
 (T) `regenerate`: plot_mode_to_idx, prepare_axis, PlotMode, Unit, LENGTH_UNITS are re-translated from the
     Python AST into coq/generated/PlotGen.v (harness/pyast_plot.py, fail-closed); the finite label/index
     theorems of coq/properties/C20.v are re-proved against that term, and the interpreter is validated
     against Python on the whole finite domain (7 modes x 10 units x 8 flag settings).
 (H) scenario runs: every drawing function is called on the Agg backend, the data of the artists it
     added are read back and compared with the Coq model Evo.PlotModel evaluated by vm_compute at
     binary64 (bit-equal; tolerance only for p.dot(unit), rad2deg and the speed formula).
"""
import json
import os
import re

import numpy as np

from harness import common, pyast_plot
from harness.common import cf, cflist, cstr, differential, hexf, unhex

ID = "C20"
IMPORTS = "From Evo Require Import Num Linalg PlotModel.\n"
IMPORTS_GEN = "From Evo Require Import PyAstPlot.\nFrom EvoGen Require Import PlotGen.\n"
COQ_TARGETS = ["generated/PlotGen.vo", "theories/PlotModel.vo", "theories/PlotModelProofs.vo"]
GENERATED = os.path.join(common.COQ, "generated", "PlotGen.v")

TRUSTED = [
    "translator harness/pyast_plot.py (Python ast -> Coq term, fail-closed) and the Gallina semantics of the "
    "Python subset in Evo.PyAstPlot (enum compare, membership in literal sets/tuples, f-strings, if/elif chains, "
    "method calls on opaque objects logged as effects); validated differentially on the whole finite domain, not verified",
    "oracle semantics assumed in the interpreter: fig.add_subplot(.., projection='3d') returns an Axes3D, otherwise an "
    "Axes; isinstance tests that class; plt.gca() is some axes object; Enum.value / str(Enum member)",
    "hand model Evo.PlotModel written from evo/tools/plot.py; tie = differential run on the Agg backend",
    "matplotlib: Line2D/Line3D/LineCollection/Line3DCollection/PathCollection return the data they were given "
    "(get_xdata/get_ydata/get_data_3d/get_segments/_segments3d/get_offsets/_offsets3d); ax.plot(y) uses x = 0..n-1",
    "numpy slicing / zip semantics, elementwise float64 subtraction and cumsum in index order (measured bit-exactly); "
    "np.dot, np.rad2deg, np.linalg.norm compared within rtol 1e-12",
    "Euler angles (PosePath3D.get_orientations_euler) and PoseTrajectory3D.speeds are inputs of the plot model "
    "(library kernels / other properties); the speed formula is additionally compared within tolerance",
]
ASSUMPTIONS = [
    "trajectory data finite (no NaN/inf); PoseTrajectory3D has one timestamp per pose, strictly increasing for speeds",
    "rendering with the non-interactive Agg backend; artists are inspected after each call, pixels are not",
    "plot_mode is one of the 7 members of PlotMode, length_unit one of LENGTH_UNITS (other units: PlotException, proved)",
    "axis readings: trajectory coordinates are metres (evo's convention: 'trajectory data is still expected in meters'), the "
    "unit strings mm / cm / m / km of the axis labels have their SI meaning; the reading of a plotted point is the label the "
    "axis' major formatter prints for its drawn coordinate (the coordinate itself under matplotlib's default ScalarFormatter) "
    "and must equal the coordinate in the labelled unit within the rounding of the printed format (relative 1e-5 for the 6 "
    "significant digits of '%g'; half a unit of the last digit for a coarser format) - whether the unit is realised by "
    "scaled tick labels or by scaled data",
]

MODES = ["xy", "xz", "yx", "yz", "zx", "zy", "xyz"]
LENGTH_UNITS = ["millimeters", "centimeters", "meters", "kilometers"]
PM = {"xy": "PMxy", "xz": "PMxz", "yx": "PMyx", "yz": "PMyz", "zx": "PMzx", "zy": "PMzy", "xyz": "PMxyz"}
LU = {"millimeters": "LUmm", "centimeters": "LUcm", "meters": "LUm", "kilometers": "LUkm"}
SETTING_KEYS = ["plot_start_end_markers", "plot_axis_marker_scale", "plot_pose_correspondences", "plot_xyz_realistic",
                "plot_show_legend", "plot_invert_xaxis", "plot_invert_yaxis", "plot_show_axis", "euler_angle_sequence"]
RTOL = 1e-12

_state = {"gen_ok": True, "gen_failures": []}


# ------------------------------------------------------------------------------------------------
# (T) translator
# ------------------------------------------------------------------------------------------------
def regenerate(ctx):
    """Rewrite coq/generated/PlotGen.v from common.REPO only when its content changes."""
    _state["gen_failures"] = []
    try:
        text = pyast_plot.translate(common.REPO)
    except (pyast_plot.Unsupported, SyntaxError, OSError, IndexError, KeyError) as e:
        _state["gen_ok"] = False
        if not os.path.exists(GENERATED):
            raise common.HarnessError("no generated PlotGen.v and the translation failed: %r" % (e,))
        # reported by run() *after* the scenario runs (the driver lists regenerate()'s failures first): when the same
        # edit also has a concrete failing input, that input heads the report and the broken tie follows it
        _state["gen_failures"] = [
                {"kind": "obligation", "failing_input": False, "correspondence": "translator pyast_plot (fail-closed)",
                 "theorem": "C20_labels_name_the_plotted_axes", "case": {"kind": "translate"},
                 "detail": "evo/tools/plot.py / evo/core/units.py can no longer be translated: %s: %s - the finite "
                           "label/index theorems are not re-established for the current source" % (type(e).__name__, e)}]
        return []
    os.makedirs(os.path.dirname(GENERATED), exist_ok=True)
    old = open(GENERATED).read() if os.path.exists(GENERATED) else None
    if old != text:
        tmp = GENERATED + ".tmp.%d" % os.getpid()
        with open(tmp, "w") as f:
            f.write(text)
        os.replace(tmp, GENERATED)
        ctx.notes.append("coq/generated/PlotGen.v rewritten (translated source changed)")
    return []


# ------------------------------------------------------------------------------------------------
# scenario data (deterministic from the case)
# ------------------------------------------------------------------------------------------------
def _rotations(rng, n, gen):
    from scipy.spatial.transform import Rotation
    if gen == "dyadic":
        # exact quarter turns about the coordinate axes: entries 0, +-1
        base = [np.eye(3)]
        for ax in range(3):
            c = np.zeros((3, 3))
            a, b = (ax + 1) % 3, (ax + 2) % 3
            c[ax, ax] = 1.0
            c[a, b] = -1.0
            c[b, a] = 1.0
            base.append(c)
        mats, cur = [], np.eye(3)
        for _ in range(n):
            cur = cur @ base[int(rng.integers(0, 4))]
            mats.append(cur.copy() + 0.0)
        return np.array(mats)
    q = rng.normal(size=(n, 4))
    q /= np.linalg.norm(q, axis=1)[:, None]
    return Rotation.from_quat(q).as_matrix()


def scenario_data(case):
    n, gen = int(case["n"]), case["gen"]
    rng = np.random.default_rng([int(case["seed"]), n, 20])
    rots = _rotations(rng, n, gen)
    if gen == "dyadic":
        pos = np.cumsum(rng.integers(-3, 4, size=(n, 3)).astype(float) * 0.25, axis=0)
        dt = rng.integers(1, 5, size=n).astype(float) * 0.125
        err = rng.integers(0, 9, size=n).astype(float) * 0.5
        off2 = rng.integers(-2, 3, size=(n, 3)).astype(float) * 0.5
    else:
        scale = float(rng.choice([0.01, 1.0, 30.0]))
        pos = np.cumsum(rng.normal(size=(n, 3)) * scale, axis=0)
        if gen == "utm":
            pos = pos + np.array([4.1e5, 5.6e6, 312.0])
        dt = rng.uniform(0.02, 0.2, size=n)
        err = np.abs(rng.normal(size=n)) * scale
        off2 = rng.normal(size=(n, 3)) * 0.3 * scale
    base = 1.5e9 if case.get("epoch") else 0.0
    stamps = base + np.cumsum(dt)
    int_pos = case.get("int_pos", "none")
    rng2 = np.random.default_rng([int(case["seed"]), n, 21])    # new draws never disturb the data of older cases
    if int_pos.startswith("first"):
        # whole-number waypoints, handed to the constructor as integers (int ndarray / nested lists of Python ints):
        # the trajectory keeps that dtype; the other trajectory has fractional coordinates
        pos = np.cumsum(rng2.integers(-3, 4, size=(n, 3)), axis=0).astype(float)
        if gen == "utm":
            pos = pos + np.array([410000.0, 5600000.0, 312.0])
        if gen == "dyadic":
            off2 = off2 + 0.25
    poses = np.zeros((n, 4, 4))
    poses[:, :3, :3] = rots
    poses[:, :3, 3] = pos
    poses[:, 3, 3] = 1.0
    n2 = n - 1 if case.get("corr_mismatch") else n
    poses2 = poses[:n2].copy()
    poses2[:, :3, 3] += off2[:n2]
    if int_pos.startswith("second"):
        # (+ 0.0: an integer has no negative zero)
        poses2[:, :3, 3] = np.rint(poses2[:, :3, 3] * (100.0 if gen != "utm" and np.max(np.abs(pos)) < 1.0 else 1.0)) + 0.0
    start = None
    if case["start"] == "zero":
        start = 0.0
    elif case["start"] == "first":
        start = float(stamps[0])
    elif case["start"] == "other":
        start = float(stamps[0]) - 2.75
    err_x = None
    if case["err_x"] == "seconds":
        err_x = stamps - stamps[0]
    elif case["err_x"] == "distances":
        err_x = np.concatenate([[0.0], np.cumsum(np.linalg.norm(np.diff(pos, axis=0), axis=1))])
    elif case["err_x"] == "lap":          # time within the lap: restarts from 0 (two and a half laps)
        t = np.cumsum(dt)
        err_x = np.fmod(t, t[-1] / 2.5)
    elif case["err_x"] == "decreasing":   # e.g. remaining time / distance to the goal
        t = np.cumsum(dt)
        err_x = (t[-1] - t) + 0.5
    elif case["err_x"] == "ties":         # few distinct values, repeated, not ordered: 0 2 1 3 ...
        err_x = np.array(([0.0, 2.0, 1.0, 3.0] * (n // 4 + 1))[:n]) if n < 6 else rng2.integers(0, 4, size=n).astype(float)
    elif case["err_x"] == "shuffled":     # an arbitrary x array
        err_x = rng2.permutation(np.cumsum(dt))
    elif case["err_x"] == "zeros":        # distances / seconds from the start of a sequence that stands still: all 0.0
        err_x = np.zeros(n)
    elif case["err_x"] == "zeros_tail":   # stands still at first, moves at the very end (a single non-zero entry, the last)
        err_x = np.zeros(n)
        err_x[-1] = 0.5
    return {"poses": poses, "poses2": poses2, "stamps": stamps if case["stamps"] else None, "start": start,
            "err": err, "err_x": err_x}


# ------------------------------------------------------------------------------------------------
# implementation side: call, then read the artists back
# ------------------------------------------------------------------------------------------------
def _fl(a):
    return [float(x) for x in np.asarray(a, dtype=float).ravel()]


def _line_data(line):
    if hasattr(line, "get_data_3d"):
        return [_fl(c) for c in line.get_data_3d()]
    return [_fl(line.get_xdata(orig=True)), _fl(line.get_ydata(orig=True))]


def _segments(coll):
    if hasattr(coll, "_segments3d"):
        segs = coll._segments3d
    else:
        segs = coll.get_segments()
    return [[_fl(pt) for pt in np.asarray(seg, dtype=float)] for seg in segs]


def _offsets(coll):
    if hasattr(coll, "_offsets3d"):
        xs, ys, zs = coll._offsets3d
        return [[float(x), float(y), float(z)] for x, y, z in zip(np.ma.getdata(xs), np.ma.getdata(ys), np.ma.getdata(zs))]
    return [[float(v) for v in row] for row in np.ma.getdata(coll.get_offsets())]


def _kind(artist):
    return type(artist).__name__


class _Watch:
    """New artists of an axes since the last look."""

    def __init__(self, ax):
        self.ax, self.nl, self.nc = ax, len(ax.lines), len(ax.collections)

    def new(self):
        lines, colls = list(self.ax.lines)[self.nl:], list(self.ax.collections)[self.nc:]
        self.nl, self.nc = len(self.ax.lines), len(self.ax.collections)
        return lines, colls


def _describe(lines, colls):
    out = {"lines": [_line_data(l) for l in lines], "segments": [], "points": [], "kinds": []}
    for c in colls:
        out["kinds"].append(_kind(c))
        if "Line" in _kind(c):
            out["segments"].append(_segments(c))
        elif "Path" in _kind(c):
            out["points"].append(_offsets(c))
        else:
            out.setdefault("other", []).append(_kind(c))
    return out


def _call(fn):
    try:
        fn()
        return None
    except Exception as e:   # noqa
        return type(e).__name__


def _sig_digits(s):
    """number of significant digits a printed number shows (mantissa only)"""
    m = re.match(r"^[^0-9.]*([0-9]*)\.?([0-9]*)", s.replace("\u2212", "-"))
    if not m:
        return 0
    digits = (m.group(1) + m.group(2)).lstrip("0")
    return len(digits)


def _axis_readings(axis, drawn):
    """What a reader gets for the drawn data coordinates on this axis: the labels the axis' major formatter prints for them.
    The default ScalarFormatter shows the data values themselves (strings None: the coordinate is the reading)."""
    from matplotlib.ticker import ScalarFormatter
    fmt = axis.get_major_formatter()
    if isinstance(fmt, ScalarFormatter):
        return {"formatter": type(fmt).__name__, "strings": None}
    out = {"formatter": type(fmt).__name__, "strings": [], "probe": []}
    try:
        for v in drawn:
            out["strings"].append(str(fmt(float(v), None)))
        # how many significant digits the format prints (values without a short decimal expansion)
        out["probe"] = [str(fmt(v, None)) for v in (1.0 / 3.0, 1000.0 / 3.0, 2e-3 / 3.0, 7e6 / 3.0)]
    except Exception as e:   # noqa
        out["error"] = "%s: %s" % (type(e).__name__, e)
    return out


def _axes_readings(ax, is3d, line):
    """per axis of a trajectory plot: label, formatter readings of the drawn line's coordinates"""
    axes = [ax.xaxis, ax.yaxis] + ([ax.zaxis] if is3d else [])
    labels = [ax.get_xlabel(), ax.get_ylabel()] + ([ax.get_zlabel()] if is3d else [])
    return [dict(_axis_readings(a, line[k]), label=labels[k], drawn=[hexf(float(v)) for v in line[k]])
            for k, a in enumerate(axes) if k < len(line)]


def impl_scenario(case):
    import matplotlib.pyplot as plt
    from mpl_toolkits.mplot3d import Axes3D
    from evo.core.trajectory import PosePath3D, PoseTrajectory3D
    from evo.core.units import Unit
    from evo.tools import plot
    from evo.tools.settings import SETTINGS
    d = scenario_data(case)
    saved = {k: SETTINGS[k] for k in SETTING_KEYS}
    out = {}
    try:
        for k in SETTING_KEYS:
            v = case["settings"][k]
            SETTINGS[k] = unhex(v) if k == "plot_axis_marker_scale" else v
        mode, unit = plot.PlotMode[case["mode"]], Unit[case["unit"]]
        ip = case.get("int_pos", "none")

        def build(poses, stamps, how):
            if how is None:
                if stamps is not None:
                    return PoseTrajectory3D(poses_se3=list(poses), timestamps=stamps.copy())
                return PosePath3D(poses_se3=list(poses))
            # whole-number positions given as integers + orientations as quaternions
            from scipy.spatial.transform import Rotation
            xyz = np.rint(poses[:, :3, 3]).astype(np.int32 if how == "i32" else np.int64)
            if not np.array_equal(xyz, poses[:, :3, 3]):
                raise common.HarnessError("C20: integer scenario without whole-number positions")
            if how == "list":
                xyz = [[int(v) for v in row] for row in xyz]
            quat = Rotation.from_matrix(poses[:, :3, :3]).as_quat()[:, [3, 0, 1, 2]]
            if stamps is not None:
                return PoseTrajectory3D(xyz, quat, stamps.copy())
            return PosePath3D(xyz, quat)
        how = {"first": "nd", "first_list": "list", "first_i32": "i32", "second": "nd", "second_list": "list",
               "second_i32": "i32"}.get(ip)
        st2 = d["stamps"][:len(d["poses2"])] if d["stamps"] is not None else None
        t1 = build(d["poses"], d["stamps"], how if ip.startswith("first") else None)
        t2 = build(d["poses2"], st2, how if ip.startswith("second") else None)
        snap = (np.array(t1.poses_se3).tobytes(), t1.positions_xyz.tobytes())
        out["positions_are_pose_translations"] = bool(np.array_equal(t1.positions_xyz, d["poses"][:, :3, 3]))
        if ip.startswith("first"):
            # the pose matrices are derived by evo from the quaternions: the model is given the rotation blocks the
            # implementation uses (as it is given the Euler angles and speeds), the positions stay the given ones
            derived = np.array(t1.poses_se3, dtype=float)
            out["positions_are_pose_translations"] = bool(out["positions_are_pose_translations"] and np.array_equal(
                derived[:, :3, 3], d["poses"][:, :3, 3]) and derived.shape == d["poses"].shape)
            derived[:, :3, 3] = d["poses"][:, :3, 3]
            out["poses1"] = [[hexf(float(v)) for v in m.ravel()] for m in derived]
            out["positions_dtype"] = str(np.asarray(t1.positions_xyz).dtype)
        if ip.startswith("second"):
            out["positions2_ok"] = bool(np.array_equal(t2.positions_xyz, d["poses2"][:, :3, 3]))
            out["positions_dtype"] = str(np.asarray(t2.positions_xyz).dtype)
        # --- prepare_axis + traj + markers (as evo_traj / evo_ape do with the settings)
        fig = plt.figure()
        ax = plot.prepare_axis(fig, mode, length_unit=unit)
        is3d = isinstance(ax, Axes3D)
        out["is3d"] = is3d
        out["axis_labels"] = [ax.get_xlabel(), ax.get_ylabel()] + ([ax.get_zlabel()] if is3d else [])
        w = _Watch(ax)
        if case["entry"] == "trajectories":
            fig0 = plt.figure()
            plot.trajectories(fig0, {"est": t1}, mode, plot_start_end_markers=SETTINGS.plot_start_end_markers,
                              length_unit=unit)
            ax0 = fig0.axes[0]
            out["axis_labels_trajectories"] = [ax0.get_xlabel(), ax0.get_ylabel()] + ([ax0.get_zlabel()] if is3d else [])
            out["traj"] = _describe(list(ax0.lines), list(ax0.collections))
            if len(ax0.lines) == 1:
                out["readings"] = _axes_readings(ax0, is3d, out["traj"]["lines"][0])
        else:
            plot.traj(ax, mode, t1, "-", "black", "est", plot_start_end_markers=SETTINGS.plot_start_end_markers)
            out["traj"] = _describe(*w.new())
            if len(out["traj"]["lines"]) == 1:
                out["readings"] = _axes_readings(ax, is3d, out["traj"]["lines"][0])
        # --- traj_colormap
        err = d["err"]
        # values to colour-map: one per pose (evo_ape) or one per pose pair = one per segment (what evo_rpe hands over
        # together with the trajectory reduced to the pair poses plus the first pose): N-1 values for N poses
        cvals = err[:len(err) - 1] if case.get("cmap_vals", "n") == "pairs" else err
        out["cmap_values"] = int(len(cvals))
        lo, hi = float(np.min(cvals)), float(np.max(cvals))
        if lo == hi:
            hi = lo + 1.0
        exc = _call(lambda: plot.traj_colormap(ax, t1, cvals, mode, lo, hi, fig=fig,
                                               plot_start_end_markers=SETTINGS.plot_start_end_markers))
        out["colormap"] = _describe(*w.new())
        out["colormap"]["error"] = exc
        # --- coordinate frame markers
        exc = _call(lambda: plot.draw_coordinate_axes(ax, t1, mode, SETTINGS.plot_axis_marker_scale))
        out["axes"] = _describe(*w.new())
        out["axes"]["error"] = exc
        # --- pose correspondences
        out["corr"] = None
        if SETTINGS.plot_pose_correspondences:
            exc = _call(lambda: plot.draw_correspondence_edges(ax, t1, t2, mode))
            out["corr"] = _describe(*w.new())
            out["corr"]["error"] = exc
        out["labels_after"] = [ax.get_xlabel(), ax.get_ylabel()] + ([ax.get_zlabel()] if is3d else [])
        # --- traj_xyz / traj_rpy
        start = d["start"]
        fig2, axarr = plt.subplots(3)
        plot.traj_xyz(axarr, t1, start_timestamp=start, length_unit=unit)
        out["xyz"] = {"lines": [[_line_data(l) for l in a.lines] for a in axarr],
                      "ylabels": [a.get_ylabel() for a in axarr], "xlabels": [a.get_xlabel() for a in axarr]}
        if all(len(a.lines) == 1 for a in axarr):
            out["xyz"]["readings"] = [dict(_axis_readings(a.yaxis, out["xyz"]["lines"][i][0][1]), label=a.get_ylabel(),
                                           drawn=[hexf(float(v)) for v in out["xyz"]["lines"][i][0][1]])
                                      for i, a in enumerate(axarr)]
        angles = t1.get_orientations_euler(SETTINGS.euler_angle_sequence)
        out["angles"] = [_fl(r) for r in angles]
        fig3, axarr3 = plt.subplots(3)
        plot.traj_rpy(axarr3, t1, start_timestamp=start)
        out["rpy"] = {"lines": [[_line_data(l) for l in a.lines] for a in axarr3],
                      "ylabels": [a.get_ylabel() for a in axarr3], "xlabels": [a.get_xlabel() for a in axarr3]}
        # --- speeds
        out["speeds"] = None
        fig4 = plt.figure()
        ax4 = fig4.gca()
        if d["stamps"] is not None:
            out["speeds_in"] = _fl(t1.speeds)
            plot.speeds(ax4, t1, start_timestamp=start)
            out["speeds"] = {"lines": [_line_data(l) for l in ax4.lines], "xlabel": ax4.get_xlabel(),
                             "ylabel": ax4.get_ylabel()}
        else:
            out["speeds_in"] = []
            out["speeds_refused"] = _call(lambda: plot.speeds(ax4, t1, start_timestamp=start))
            out["speeds_lines_without_stamps"] = len(ax4.lines)
        # --- error_array
        fig5 = plt.figure()
        ax5 = fig5.gca()
        plot.error_array(ax5, err, x_array=d["err_x"], cumulative=bool(case["cumulative"]),
                         statistics={"mean": float(np.mean(err)), "std": float(np.std(err))} if case["cumulative"] is False and case["n"] % 2 else None,
                         threshold=1.5 if case["n"] % 3 == 0 else None, name="APE", xlabel="x-label")
        out["err"] = {"first_line": _line_data(ax5.lines[0]), "n_lines": len(ax5.lines),
                      "xlabel": ax5.get_xlabel(), "ylabel": ax5.get_ylabel()}
        out["inputs_unchanged"] = (np.array(t1.poses_se3).tobytes(), t1.positions_xyz.tobytes()) == snap
    except Exception as e:   # noqa
        out["error"] = "%s: %s" % (type(e).__name__, e)
    finally:
        for k, v in saved.items():
            SETTINGS[k] = v
        plt.close("all")
    return out


# ------------------------------------------------------------------------------------------------
# model side
# ------------------------------------------------------------------------------------------------
def _cv3(v):
    return "(mkV3 %s %s %s)" % (cf(v[0]), cf(v[1]), cf(v[2]))


def _cpose(p):
    r = " ".join(cf(p[i, j]) for i in range(3) for j in range(3))
    return "(mkPose (mkM3 %s) %s)" % (r, _cv3(p[:3, 3]))


def _copt(x, f):
    return "None" if x is None else "(Some %s)" % f(x)


def expr_scenario(case, out):
    d = scenario_data(case)
    scale = unhex(case["settings"]["plot_axis_marker_scale"])
    angles = out.get("angles") or []
    speeds_in = out.get("speeds_in") or []
    poses1 = d["poses"]
    if out.get("poses1"):
        poses1 = np.array([[unhex(v) for v in m] for m in out["poses1"]], dtype=float).reshape(-1, 4, 4)
    return ("scenario %s %s FloatConst.deg_per_rad %s [%s] [%s] %s %s [%s] %s %s %s %s" % (
        PM[case["mode"]], LU[case["unit"]], cf(scale),
        "; ".join(_cpose(p) for p in poses1), "; ".join(_cpose(p) for p in d["poses2"]),
        _copt(d["stamps"], cflist), _copt(d["start"], cf),
        "; ".join(_cv3(a) for a in angles), cflist(speeds_in), cflist(d["err"]), _copt(d["err_x"], cflist),
        "true" if case["cumulative"] else "false"))


def _bits(a):
    return np.asarray(a, dtype=np.float64).view(np.uint64)


def same_bits(a, b):
    """Nested lists of floats: same shape and bit-identical values."""
    try:
        x, y = np.asarray(a, dtype=np.float64), np.asarray(b, dtype=np.float64)
    except (ValueError, TypeError):
        return False
    return x.shape == y.shape and bool(np.array_equal(_bits(x), _bits(y)))


def same_close(a, b, scale=None):
    try:
        x, y = np.asarray(a, dtype=np.float64), np.asarray(b, dtype=np.float64)
    except (ValueError, TypeError):
        return False
    if x.shape != y.shape:
        return False
    if x.size == 0:
        return True
    s = max(float(np.max(np.abs(x))), float(np.max(np.abs(y)))) if scale is None else scale
    return bool(np.all(np.abs(x - y) <= 1e-300 + RTOL * s))


def _drawn(v):
    """Coq `drawn` -> ('Nothing'|'Refused'|'Drawn', payload)."""
    if isinstance(v, tuple) and v and v[0] == "Drawn":
        return "Drawn", v[1]
    return v, None


def _opt(v):
    if v is None:
        return None
    if isinstance(v, tuple) and v and v[0] == "Some":
        return v[1]
    return v


def _viol(what, detail, model=None, got=None):
    return {"kind": "spec-violation", "failing_input": True, "artist": what, "detail": detail,
            "expected_by_model": model, "drawn_by_implementation": got}


def _tie(what, detail):
    return {"kind": "model-vs-impl", "failing_input": False, "correspondence": "PlotModel." + what, "detail": detail}


def _brief(x, lim=6):
    try:
        return json.loads(json.dumps(x))[:lim]
    except Exception:   # noqa
        return str(x)[:400]


METRES_PER_UNIT = {"mm": 1e-3, "cm": 1e-2, "m": 1.0, "km": 1e3}     # what the unit names mean (not read from evo)
READING_RTOL = 1e-5     # '%g' prints 6 significant digits: relative rounding error <= 5e-6


def _parse_reading(s):
    t = s.strip().replace("\u2212", "-").replace("$", "")
    m = re.fullmatch(r"\\mathdefault\{(.*)\}", t)
    if m:
        t = m.group(1)
    return float(t)


def _reading_failure(where, rd, pos):
    """The reading of a plotted point - the label the axis' major formatter prints for the drawn coordinate, or the
    coordinate itself under matplotlib's default formatter - must be the trajectory's coordinate (metres) of the axis the
    label names, expressed in the unit the label names. However the unit is realised (scaled tick labels, scaled data)."""
    m = re.fullmatch(r"\$([xyz])\$ \((\w+)\)", rd["label"])
    if m is None or m.group(2) not in METRES_PER_UNIT:
        return None       # judged by the label comparison
    letter, unit = m.group(1), m.group(2)
    col = np.asarray(pos[:, "xyz".index(letter)], dtype=float)
    drawn = [unhex(v) for v in rd["drawn"]]
    if len(drawn) != len(col):
        return None       # judged by the line-data comparison
    if rd.get("error"):
        return _tie("axis_reading", "%s: the axis formatter %s cannot be applied to a drawn coordinate: %s" % (
            where, rd["formatter"], rd["error"]))
    rtol = READING_RTOL
    if rd["strings"] is None:
        readings, shown = drawn, [repr(v) for v in drawn]
    else:
        try:
            readings, shown = [_parse_reading(x) for x in rd["strings"]], rd["strings"]
        except ValueError as e:
            return _tie("axis_reading", "%s: tick label is not a number: %s" % (where, e))
        digits = max([_sig_digits(x) for x in rd.get("probe", [])] or [0])
        if 1 <= digits < 6:     # a coarser format than %g: half a unit of its last digit
            rtol = max(rtol, 0.505 * 10.0 ** (1 - digits))
    per = METRES_PER_UNIT[unit]
    for k, (c, r) in enumerate(zip(col, readings)):
        want = float(c) / per
        if not abs(r - want) <= rtol * abs(want) + 1e-300:
            return _viol("axis reading (%s)" % where,
                         "%s: pose %d has %s = %r m = %r %s; it is drawn at data coordinate %r where the axis labelled %r reads %s "
                         "(%s) - the reading is not the trajectory's coordinate in the unit the label names" % (
                             where, k, letter, float(c), want, unit, drawn[k], rd["label"], shown[k],
                             "tick labels by " + rd["formatter"] if rd["strings"] is not None else "no unit formatter installed"),
                         want, shown[k])
    return None


def judge_scenario(case, val, out):
    if "error" in out:
        return _viol("call", "unexpected exception while plotting: " + out["error"])
    # Coq prints left-nested pairs flat: the leading label triple is part of the same tuple
    (m_axis_labels, m_xyz_ylabels, m_xlabel, m_line, m_marks, m_cmap, m_axes, m_corr, m_xyz, m_rpy, m_speeds, m_err) = val
    st = case["settings"]
    if not out["positions_are_pose_translations"]:
        return _tie("positions", "positions_xyz is not the translation column of poses_se3")
    if out.get("positions2_ok") is False:
        return _tie("positions", "positions_xyz of the second trajectory is not the integer array it was built from")
    if not out.get("inputs_unchanged", True):
        return _viol("inputs", "plotting modified the trajectory")
    # ---- axis labels
    for key in ("axis_labels", "labels_after", "axis_labels_trajectories"):
        if key in out and out[key] != list(m_axis_labels):
            return _viol("axis labels", "the axis labels do not name the axes/unit of the plotted coordinates (%s)" % key,
                         list(m_axis_labels), out[key])
    if out["is3d"] != (case["mode"] == "xyz"):
        return _viol("axes", "3-D axes if and only if the mode is xyz", case["mode"] == "xyz", out["is3d"])
    # ---- trajectory line and start/end markers
    t = out["traj"]
    if len(t["lines"]) != 1 or t["segments"]:
        return _tie("traj_line", "traj() added %d lines / %d line collections" % (len(t["lines"]), len(t["segments"])))
    if not same_bits(t["lines"][0], m_line):
        return _viol("trajectory line", "line data is not the trajectory's coordinates of the mode's axes in pose order",
                     _brief([c[:4] for c in m_line]), _brief([c[:4] for c in t["lines"][0]]))
    pos1 = scenario_data(case)["poses"][:, :3, 3]
    for rd in out.get("readings") or []:
        f = _reading_failure("trajectory plot (%s)" % ("trajectories()" if case["entry"] == "trajectories" else "prepare_axis() + traj()"),
                             rd, pos1)
        if f is not None:
            return f
    want_marks = list(m_marks) if st["plot_start_end_markers"] else []
    got_marks = [p for pts in t["points"] for p in pts]
    if len(t["points"]) != len(want_marks) or not same_bits(got_marks, want_marks):
        return _viol("start/end markers", "markers are not at the first / last pose position (or drawn although disabled)",
                     want_marks, t["points"])
    # ---- colour-mapped segments
    c = out["colormap"]
    if c["error"] is not None:
        return _viol("traj_colormap", "unexpected exception " + c["error"])
    kind, segs = _drawn(m_cmap)
    if kind != "Drawn" or len(c["segments"]) != 1:
        return _tie("colormap_segments", "expected exactly one line collection (model: %s, impl: %d)" % (kind, len(c["segments"])))
    if not same_bits(c["segments"][0], segs) and not (len(segs) == 0 and len(c["segments"][0]) == 0):
        return _viol("colour-mapped segments", "segment k does not join pose k and pose k+1 on the mode's axes (%d poses, %s values "
                     "colour-mapped: %d segments expected, %d drawn)" % (case["n"], out.get("cmap_values"), len(segs), len(c["segments"][0])),
                     _brief(segs, 3), _brief(c["segments"][0], 3))
    got_marks = [p for pts in c["points"] for p in pts]
    if len(c["points"]) != len(want_marks) or not same_bits(got_marks, want_marks):
        return _viol("start/end markers (colormap)", "markers are not at the first / last pose position", want_marks, c["points"])
    # ---- coordinate frame markers
    a = out["axes"]
    kind, segs = _drawn(m_axes)
    if a["error"] is not None:
        return _viol("draw_coordinate_axes", "unexpected exception " + a["error"])
    if kind == "Nothing":
        if a["segments"] or a["points"] or a["lines"]:
            return _viol("coordinate axes", "frame markers drawn although the marker scale is not positive")
    elif kind == "Drawn":
        if len(a["segments"]) != 1:
            return _viol("coordinate axes", "no frame markers drawn although the marker scale is positive")
        g = a["segments"][0]
        if len(g) != len(segs):
            return _viol("coordinate axes", "number of marker segments", len(segs), len(g))
        starts_m, starts_g = [s[0] for s in segs], [s[0] for s in g]
        if not same_bits(starts_g, starts_m):
            return _viol("coordinate axes", "a frame marker does not start at its pose position", _brief(starts_m, 3), _brief(starts_g, 3))
        sc = max(1.0, float(np.max(np.abs(np.asarray(segs)))) if len(segs) else 1.0)
        if not same_close([s[1] for s in g], [s[1] for s in segs], scale=sc):
            return _viol("coordinate axes", "a frame marker does not end at p + scale * R e_i",
                         _brief([s[1] for s in segs], 3), _brief([s[1] for s in g], 3))
    else:
        return _tie("coordinate_axes", "model refused")
    # ---- correspondence edges
    kind, segs = _drawn(m_corr)
    co = out["corr"]
    if co is not None:
        if kind == "Refused":
            if co["error"] != "PlotException" or co["segments"]:
                return _viol("correspondence edges", "trajectories of different length were not refused", "PlotException", co["error"])
        elif co["error"] is not None:
            return _viol("correspondence edges", "unexpected exception " + str(co["error"]))
        elif len(co["segments"]) != 1 or not (same_bits(co["segments"][0], segs) or (len(segs) == 0 and len(co["segments"][0]) == 0)):
            return _viol("correspondence edges", "edge k does not join pose k of both trajectories on the mode's axes",
                         _brief(segs, 3), _brief(co["segments"], 3))
    # ---- traj_xyz
    x = out["xyz"]
    if x["ylabels"] != list(m_xyz_ylabels) or x["xlabels"] != ["", "", m_xlabel]:
        return _viol("traj_xyz labels", "labels of the per-axis position plot", [list(m_xyz_ylabels), m_xlabel], [x["ylabels"], x["xlabels"]])
    if [len(l) for l in x["lines"]] != [1, 1, 1]:
        return _tie("traj_xyz_lines", "expected one line per subplot")
    for i in range(3):
        mx, my = m_xyz[i]
        gx, gy = x["lines"][i][0]
        if not same_bits(gx, mx):
            return _viol("traj_xyz x data", "x data are not the timestamps (minus start time) / pose indices", _brief(mx), _brief(gx))
        if not same_bits(gy, my):
            return _viol("traj_xyz y data", "subplot %d does not show coordinate %d of the positions" % (i, i), _brief(my), _brief(gy))
    for rd in x.get("readings") or []:
        f = _reading_failure("traj_xyz()", rd, pos1)
        if f is not None:
            return f
    # ---- traj_rpy
    r = out["rpy"]
    if r["ylabels"] != ["$roll$ (deg)", "$pitch$ (deg)", "$yaw$ (deg)"] or r["xlabels"] != ["", "", m_xlabel]:
        return _viol("traj_rpy labels", "labels of the roll/pitch/yaw plot", None, [r["ylabels"], r["xlabels"]])
    if [len(l) for l in r["lines"]] != [1, 1, 1]:
        return _tie("traj_rpy_lines", "expected one line per subplot")
    for i in range(3):
        mx, my = m_rpy[i]
        gx, gy = r["lines"][i][0]
        if not same_bits(gx, mx):
            return _viol("traj_rpy x data", "x data are not the timestamps (minus start time) / pose indices", _brief(mx), _brief(gx))
        if not same_close(gy, my, scale=180.0):
            return _viol("traj_rpy y data", "subplot %d does not show Euler angle %d in degrees" % (i, i), _brief(my), _brief(gy))
    # ---- speeds
    ms = _opt(m_speeds)
    if case["stamps"]:
        s = out["speeds"]
        mx, my, m_formula = ms      # ((x, y), formula) printed flat
        if len(s["lines"]) != 1:
            return _tie("speeds_line", "expected one line")
        gx, gy = s["lines"][0]
        if not same_bits(gx, mx):
            return _viol("speeds x data", "speeds are not plotted against timestamps[1:] (minus start time)", _brief(mx), _brief(gx))
        if not same_bits(gy, my):
            return _viol("speeds y data", "y data are not the trajectory's speeds", _brief(my), _brief(gy))
        if not same_close(gy, m_formula):
            return _viol("speeds y data", "speed k is not |p_k+1 - p_k| / (t_k+1 - t_k)", _brief(m_formula), _brief(gy))
        if (s["xlabel"], s["ylabel"]) != ("$t$ (s)", "$v$ (m/s)"):
            return _viol("speeds labels", "labels of the speed plot", None, [s["xlabel"], s["ylabel"]])
    else:
        if out.get("speeds_refused") != "PlotException" or out.get("speeds_lines_without_stamps"):
            return _viol("speeds", "a path without timestamps was not refused", "PlotException", out.get("speeds_refused"))
    # ---- error_array
    e = out["err"]
    mx, my = m_err
    gx, gy = e["first_line"]
    if not same_bits(gx, mx):
        return _viol("error_array x data", "values are not plotted against the given x array / the index", _brief(mx), _brief(gx))
    if not same_bits(gy, my):
        return _viol("error_array y data", "y data are not the given values in order (cumulative: running sums)", _brief(my), _brief(gy))
    if (e["xlabel"], e["ylabel"]) != ("x-label", "APE"):
        return _viol("error_array labels", "labels", ["x-label", "APE"], [e["xlabel"], e["ylabel"]])
    return None


# ------------------------------------------------------------------------------------------------
# translator validation: interpreter on the regenerated term vs Python, whole finite domain
# ------------------------------------------------------------------------------------------------
def impl_interp(case):
    import matplotlib.pyplot as plt
    from matplotlib.ticker import FuncFormatter
    from mpl_toolkits.mplot3d import Axes3D
    from evo.core.units import Unit
    from evo.tools import plot
    from evo.tools.settings import SETTINGS
    if case["kind"] == "idx":
        try:
            r = plot.plot_mode_to_idx(plot.PlotMode[case["mode"]])
            return {"idx": [None if v is None else int(v) for v in r]}
        except Exception as e:   # noqa
            return {"error": type(e).__name__}
    if case["kind"] == "tables":
        return {"modes": [[m.name, m.value] for m in plot.PlotMode], "units": [[u.name, u.value] for u in Unit],
                "length_units": [u.name for u in plot.LENGTH_UNITS]}
    keys = ["plot_invert_xaxis", "plot_invert_yaxis", "plot_show_axis"]
    saved = {k: SETTINGS[k] for k in keys}
    try:
        for k, v in zip(keys, case["flags"]):
            SETTINGS[k] = bool(v)
        fig = plt.figure()
        try:
            ax = plot.prepare_axis(fig, plot.PlotMode[case["mode"]], length_unit=Unit[case["unit"]])
        except plot.PlotException as e:
            return {"raised": True, "message": str(e)}
        except Exception as e:   # noqa
            return {"error": type(e).__name__ + ": " + str(e)}
        is3d = isinstance(ax, Axes3D)
        fm = [isinstance(a.get_major_formatter(), FuncFormatter) for a in
              ([ax.xaxis, ax.yaxis] + ([ax.zaxis] if is3d else []))]
        return {"raised": False, "is3d": is3d, "x": ax.get_xlabel(), "y": ax.get_ylabel(),
                "z": ax.get_zlabel() if is3d else None, "inv_x": bool(ax.xaxis_inverted()), "inv_y": bool(ax.yaxis_inverted()),
                "axis_off": not (ax._axis3don if is3d else ax.axison), "formatters": int(sum(fm)), "axes_in_fig": len(fig.axes)}
    finally:
        for k, v in saved.items():
            SETTINGS[k] = v
        plt.close("all")


GEN_TABS = "(match mk_tables PlotMode_members Unit_members with Some t => t | None => [] end)"


def expr_interp(case, out):
    if case["kind"] == "idx":
        return "interp_idx %s plot_mode_to_idx_body %s" % (GEN_TABS, cstr(case["mode"]))
    if case["kind"] == "tables":
        return "(mk_tables PlotMode_members Unit_members, interp_length_units %s LENGTH_UNITS)" % GEN_TABS
    f = case["flags"]
    return "interp_prepare %s LENGTH_UNITS prepare_axis_body %s %s (mkFlags %s %s %s)" % (
        GEN_TABS, cstr(case["mode"]), cstr(case["unit"]), *("true" if b else "false" for b in f))


def expr_interp_tuple(case, out):
    """Coq prints records as {| f := v; ... |}, which the shared reader does not parse: print a tuple."""
    e = expr_interp(case, out)
    if case["kind"] != "prepare":
        return e
    return ("match %s with Some r => Some (ar_raised r, ar_is3d r, ar_xlabels r, ar_ylabels r, ar_zlabels r, "
            "ar_foreign_labels r, ar_inverts r, ar_axis_off r, ar_formatters r) | None => None end" % e)


def judge_interp(case, val, out):
    def bad(detail):
        return {"kind": "model-vs-impl", "failing_input": False, "correspondence": "translator pyast_plot + interpreter PyAstPlot",
                "theorem": "C20_labels_name_the_plotted_axes", "detail": detail}
    if "error" in out:
        if case["kind"] == "idx" and val is None:
            return {"kind": "spec-violation", "failing_input": True, "artist": "plot_mode_to_idx",
                    "detail": "plot_mode_to_idx fails for a plot mode: " + out["error"]}
        return bad("implementation raised %s; interpreter: %r" % (out["error"], val))
    v = _opt(val)
    if case["kind"] == "idx":
        if v is None:
            return bad("interpreter is stuck on plot_mode_to_idx(%s)" % case["mode"])
        a, b, c = v
        got = [int(a), int(b), None if _opt(c) is None else int(_opt(c))]
        if got != out["idx"]:
            return bad("interpreter %r vs Python %r" % (got, out["idx"]))
        return None
    if case["kind"] == "tables":
        tabs, lus = val
        tabs, lus = _opt(tabs), _opt(lus)
        if tabs is None or lus is None:
            return bad("enum tables / LENGTH_UNITS not evaluable")
        t = {name: [list(p) for p in members] for name, members in tabs}
        if t.get("PlotMode") != out["modes"] or t.get("Unit") != out["units"] or list(lus) != out["length_units"]:
            return bad("enum tables differ: %r vs %r" % (t, out))
        return None
    if v is None:
        return bad("interpreter is stuck on prepare_axis(%s, %s, %r)" % (case["mode"], case["unit"], case["flags"]))
    raised, is3d, xl, yl, zl, foreign, inverts, axis_off, formatters = v
    if raised or out.get("raised"):
        if bool(raised) != bool(out.get("raised")):
            return bad("refusal differs: interpreter %r, Python %r" % (raised, out.get("raised")))
        return None
    want = {"is3d": is3d, "x": list(xl), "y": list(yl), "z": list(zl), "inv_x": "invert_xaxis" in inverts,
            "inv_y": "invert_yaxis" in inverts, "axis_off": axis_off, "formatters": len(formatters), "foreign": foreign}
    got = {"is3d": out["is3d"], "x": [out["x"]], "y": [out["y"]], "z": [out["z"]] if out["is3d"] else [],
           "inv_x": out["inv_x"], "inv_y": out["inv_y"], "axis_off": out["axis_off"], "formatters": out["formatters"],
           "foreign": 0}
    if want != got:
        return bad("prepare_axis(%s, %s, %r): interpreter %r vs Python %r" % (case["mode"], case["unit"], case["flags"], want, got))
    return None


# ------------------------------------------------------------------------------------------------
# generators
# ------------------------------------------------------------------------------------------------
def default_settings():
    return {"plot_start_end_markers": True, "plot_axis_marker_scale": hexf(0.25), "plot_pose_correspondences": True,
            "plot_xyz_realistic": True, "plot_show_legend": True, "plot_invert_xaxis": False,
            "plot_invert_yaxis": False, "plot_show_axis": True, "euler_angle_sequence": "sxyz"}


def mk(mode, unit, n, seed, gen="random", stamps=True, start="none", err_x="none", cumulative=False,
       entry="traj", epoch=False, corr_mismatch=False, int_pos="none", cmap_vals="n", **settings):
    s = default_settings()
    for k, v in settings.items():
        s[k] = hexf(v) if k == "plot_axis_marker_scale" else v
    return {"kind": "scenario", "mode": mode, "unit": unit, "n": int(n), "seed": int(seed), "gen": gen,
            "stamps": bool(stamps), "start": start if stamps else "none", "err_x": err_x, "cumulative": bool(cumulative),
            "entry": entry, "epoch": bool(epoch), "corr_mismatch": bool(corr_mismatch), "int_pos": int_pos,
            "cmap_vals": cmap_vals, "settings": s}


def corpus():
    out = []
    for m in MODES:
        out.append(mk(m, "meters", 2, 1, gen="dyadic"))
        out.append(mk(m, "millimeters", 3, 2, gen="dyadic", start="first", err_x="seconds", cumulative=True))
        out.append(mk(m, "kilometers", 5, 3, stamps=False, entry="trajectories"))
        out.append(mk(m, "centimeters", 4, 4, start="zero", plot_axis_marker_scale=0.0, plot_start_end_markers=False,
                      plot_pose_correspondences=False))
        out.append(mk(m, "meters", 4, 5, corr_mismatch=True, plot_axis_marker_scale=-1.0))
    # whole-number waypoints handed over as integers (the trajectory keeps the integer dtype) for the first / the second
    # trajectory of the correspondence edges, the other one fractional; x arrays of the error plot that are not
    # increasing (time within the lap, decreasing, repeated values, arbitrary order)
    for i, m in enumerate(MODES):
        out.append(mk(m, "meters", 4, 6, gen="dyadic", int_pos="first", err_x="lap"))
        out.append(mk(m, "centimeters", 5, 7, gen="dyadic", stamps=False, int_pos="second_list", err_x="ties",
                      cumulative=True))
        out.append(mk(m, LENGTH_UNITS[i % 4], 6, 8 + i, gen=("random", "utm")[i % 2], stamps=i % 3 != 0,
                      start=("none", "first", "other")[i % 3],
                      int_pos=("first_list", "first_i32", "second", "second_i32")[i % 4],
                      err_x=("decreasing", "shuffled")[i % 2], entry=("traj", "trajectories")[(i // 2) % 2],
                      cumulative=i % 4 == 3))
    # one colour-mapped value per pose pair (N-1 values for N poses: the layout of evo_rpe) in every mode, down to 2 poses /
    # 1 value; x arrays of the error plot without a non-zero entry (distances / seconds from the start of a sequence that
    # stands still), or with the last entry only
    for i, m in enumerate(MODES):
        out.append(mk(m, "meters", (5, 2, 3, 9)[i % 4], 20 + i, gen=("dyadic", "random")[i % 2], cmap_vals="pairs",
                      stamps=i % 2 == 0, err_x="zeros", cumulative=i % 2 == 1))
        out.append(mk(m, LENGTH_UNITS[(i + 1) % 4], (4, 6, 2)[i % 3], 30 + i, gen=("random", "utm", "dyadic")[i % 3],
                      cmap_vals=("pairs", "n")[i % 2], err_x=("zeros_tail", "zeros")[i % 2], cumulative=i % 4 < 2,
                      entry=("traj", "trajectories")[i % 2], plot_start_end_markers=i % 3 != 0))
    return out


def scenario_cases(ctx):
    rng = ctx.rng
    out = []
    combos = [(m, u, sv) for m in MODES for u in LENGTH_UNITS
              for sv in (("stamps", "none"), ("stamps", "other"), ("nostamps", "none"))]
    reps = ctx.n(2, 16)
    k = 0
    for rep in range(reps):
        for (m, u, (sk, start)) in combos:
            k += 1
            r = rng.random()
            if ctx.quick:
                n = rng.choice([2, 3, 4, 5, 7, 9, 12]) if r < 0.8 else rng.choice([20, 33, 60])
            else:
                n = rng.choice([2, 3, 5, 8, 13, 21]) if r < 0.6 else (rng.choice([40, 60, 100]) if r < 0.95 else rng.choice([250, 500]))
            stamps = sk == "stamps"
            if stamps and rep % 2 == 1:
                start = rng.choice(["zero", "first", "other"])
            out.append(mk(m, u, n, rng.randrange(10 ** 6),
                          gen=rng.choice(["random", "random", "dyadic", "utm"]), stamps=stamps, start=start,
                          err_x=rng.choice((["none", "seconds", "distances"] if stamps else ["none", "distances"]) * 2
                                           + ["lap", "decreasing", "ties", "shuffled"]),
                          cumulative=rng.random() < 0.3, entry=rng.choice(["traj", "traj", "trajectories"]),
                          epoch=rng.random() < 0.3, corr_mismatch=rng.random() < 0.1,
                          plot_start_end_markers=rng.random() < 0.7,
                          plot_axis_marker_scale=rng.choice([0.0, 0.1, 0.5, 2.0, 0.3, -0.5]),
                          plot_pose_correspondences=rng.random() < 0.7,
                          plot_xyz_realistic=rng.random() < 0.5, plot_show_legend=rng.random() < 0.5,
                          plot_invert_xaxis=rng.random() < 0.3, plot_invert_yaxis=rng.random() < 0.3,
                          plot_show_axis=rng.random() < 0.8,
                          euler_angle_sequence=rng.choice(["sxyz", "sxyz", "szyx", "rzyx"]),
                          int_pos=rng.choice(["none"] * 15 + ["first", "first_list", "first_i32", "second", "second_list"])))
            # derived from the case's own seed: no extra draw from the shared generator
            sd = out[-1]["seed"]
            if sd % 3 == 0:
                out[-1]["cmap_vals"] = "pairs"
            if (sd // 3) % 8 == 0:
                out[-1]["err_x"] = ("zeros", "zeros_tail")[(sd // 24) % 2]
    if not ctx.quick:
        for m in MODES:   # the upper end of the quantifier: 500 poses in every mode
            out.append(mk(m, rng.choice(LENGTH_UNITS), 500, rng.randrange(10 ** 6), start="other", err_x="seconds",
                          plot_axis_marker_scale=0.4))
    return out


def interp_cases():
    from evo.core.units import Unit
    from evo.tools import plot
    modes = [m.name for m in plot.PlotMode]
    units = [u.name for u in Unit]
    out = [{"kind": "tables"}]
    out += [{"kind": "idx", "mode": m} for m in modes]
    for m in modes:
        for u in units:
            for f in range(8):
                out.append({"kind": "prepare", "mode": m, "unit": u, "flags": [bool(f & 4), bool(f & 2), bool(f & 1)]})
    return out


def nontrivial(case, val, out):
    """At least 3 poses, the three coordinate columns pairwise different (a swapped axis is visible) and
    a pose whose rotation is not the identity (the frame markers depend on the pose's own axes)."""
    if case.get("kind") != "scenario" or case["n"] < 3:
        return False
    d = scenario_data(case)
    p = d["poses"][:, :3, 3]
    cols = not (np.array_equal(p[:, 0], p[:, 1]) or np.array_equal(p[:, 0], p[:, 2]) or np.array_equal(p[:, 1], p[:, 2]))
    rot = any(not np.array_equal(q[:3, :3], np.eye(3)) for q in d["poses"])
    return bool(cols and rot)


def shrink(case):
    if case.get("kind") != "scenario":
        return
    n = case["n"]
    for m in sorted({2, 3, n // 2, n - 1}):
        if 2 <= m < n:
            c = json.loads(json.dumps(case))
            c["n"] = m
            yield c
    s = case["settings"]
    for k, v in default_settings().items():
        if s[k] != v:
            c = json.loads(json.dumps(case))
            c["settings"][k] = v
            yield c
    for k, v in (("gen", "dyadic"), ("epoch", False), ("entry", "traj"), ("corr_mismatch", False), ("cumulative", False),
                 ("err_x", "none"), ("int_pos", "none"), ("cmap_vals", "n")):
        if case.get(k, v) != v:
            c = json.loads(json.dumps(case))
            c[k] = v
            yield c


# ------------------------------------------------------------------------------------------------
def run(ctx, replay=None, proofs_ok=True):
    failures = []
    have_model = os.path.exists(os.path.join(common.COQ, "theories", "PlotModel.vo"))
    if not proofs_ok or not have_model:
        # the obligations against the regenerated term may be what broke: the hand model is still needed
        rc, log = common.build_theories(targets=["theories/PlotModel.vo", "theories/PyAstPlot.vo"])
        if rc != 0:
            raise common.HarnessError("cannot build the hand model PlotModel.v:\n" + log[-2000:])
        common.build_theories(targets=["generated/PlotGen.vo"])
    gen_built = os.path.exists(os.path.join(common.COQ, "generated", "PlotGen.vo")) and \
        os.path.getmtime(os.path.join(common.COQ, "generated", "PlotGen.vo")) >= os.path.getmtime(GENERATED)
    if replay is not None:
        sc = [replay["case"]] if replay["case"].get("kind") == "scenario" else []
        ic = [replay["case"]] if replay["case"].get("kind") in ("idx", "prepare", "tables") else []
    else:
        sc = corpus() + scenario_cases(ctx)
        ic = interp_cases()
    stats_i = {"evaluations": 0, "distinct_nontrivial": 0, "disagreements": 0}
    if ic and _state["gen_ok"] and gen_built:
        f_i, stats_i = differential(ctx, ic, imports=IMPORTS_GEN, impl=impl_interp, expr=expr_interp_tuple,
                                    judge=judge_interp, scope="string_scope", tag="interp", per_file=200)
        failures += f_i
    elif ic and _state["gen_ok"]:
        failures.append({"kind": "obligation", "failing_input": False, "case": {"kind": "translate"},
                         "correspondence": "coq/generated/PlotGen.v", "theorem": "C20_labels_name_the_plotted_axes",
                         "detail": "the regenerated term does not compile against Evo.PyAstPlot"})
    stats_s = {"evaluations": 0, "distinct_nontrivial": 0, "disagreements": 0}
    if sc:
        f_s, stats_s = differential(ctx, sc, imports=IMPORTS, impl=impl_scenario, expr=expr_scenario, judge=judge_scenario,
                                    shrink=shrink, nontrivial=nontrivial, tag="scen", per_file=ctx.n(16, 12))
        failures += f_s
    failures += _state.get("gen_failures", [])     # fail-closed translation errors of regenerate(), always reported
    hist = {}
    for c in sc:
        for key in ("mode:" + c["mode"], "unit:" + c["unit"], "stamps:%s/start:%s" % (c["stamps"], c["start"]),
                    "n<=%d" % (10 ** len(str(c["n"]))), "gen:" + c["gen"],
                    "markers:%s" % c["settings"]["plot_start_end_markers"],
                    "axes_scale:%s" % unhex(c["settings"]["plot_axis_marker_scale"]),
                    "correspondences:%s" % c["settings"]["plot_pose_correspondences"],
                    "integer_positions:%s" % c.get("int_pos", "none"), "error_x_array:%s" % c["err_x"],
                    "colormap_values:%s" % c.get("cmap_vals", "n")):
            hist[key] = hist.get(key, 0) + 1
    cov = {"evaluations": stats_s["evaluations"] + stats_i["evaluations"],
           "distinct_nontrivial": stats_s["distinct_nontrivial"],
           "rule": "scenario = (plot mode, length unit, n poses, data generator, with/without timestamps, start time, "
                   "marker / correspondence / legend / inversion / aspect settings, float or integer-typed positions of "
                   "either trajectory, x array of the error plot: none / seconds / distances / lap time / decreasing / "
                   "repeated values / arbitrary order / all zero / zero but the last; colour-mapped values: one per pose or "
                   "one per pose pair (N-1)); every scenario calls prepare_axis, "
                   "traj|trajectories, traj_colormap, draw_coordinate_axes, draw_correspondence_edges, traj_xyz, traj_rpy, "
                   "speeds, error_array and compares every new artist's data with the Coq model; on every length axis (trajectory plot, "
                   "traj_xyz) the reading of each plotted pose (tick label of the drawn coordinate) is compared with the pose's "
                   "coordinate in the labelled unit; distinct by case; "
                   "non-trivial = >= 3 poses, pairwise different coordinate columns, a non-identity rotation. "
                   "Translator validation cases (7 idx + 560 prepare_axis + tables) are counted in evaluations only.",
           "samples": (sc[:2] + sc[-2:] + ic[:2] + ic[-1:]),
           "input_distribution": hist,
           "scenario_evaluations": stats_s["evaluations"], "translator_validation_evaluations": stats_i["evaluations"],
           "exhaustive": False,
           "exhaustive_subspaces": {"translator validation: 7 plot modes x 10 units x 8 prepare_axis flag settings, "
                                    "7 plot_mode_to_idx calls, enum tables (interpreter vs Python)": bool(ic and replay is None),
                                    "finite theorems: 7 modes x 4 length units x 8 flag settings (+ 6 refused units)": True},
           "max_poses": max([c["n"] for c in sc] or [0]),
           "regimes": {"exact": stats_s["evaluations"], "rounded": 0, "fragile": 0,
                       "note": "all artist data compared bit-for-bit except p.dot(unit) tips, rad2deg, speed formula (rtol 1e-12)"},
           "disagreements": stats_s["disagreements"] + stats_i["disagreements"]}
    return {"failures": failures, "coverage": cov}


LEVEL_TEXT = ("Machine-checked theorems (Coq): (finite, re-proved on every run against the term re-translated from the Python "
              "source) for each of the 7 plot modes, 4 length units and 8 flag settings the x/y(/z) label set by prepare_axis "
              "names the axis whose index plot_mode_to_idx returns, that index is the position of the corresponding letter of "
              "the mode's name, and the label carries the unit's value string; (for all trajectories of any length) line data "
              "= selected coordinate columns in pose order, segment k = (p_k, p_k+1), step-2 segments of an interleaved array "
              "= (a_k, b_k), frame markers run from the pose position to p + scale * R e_i, start/end markers at first/last "
              "pose, x arrays = stamps | stamps - start | pose index, speeds against stamps[1:], error values against the "
              "given x array. The hand model is tied to the code by reading back every artist's data on the Agg backend.")
LEVEL_NOTE = ("Trusted: Coq kernel/VM, Reals axioms for the frame-marker theorem, the translator and interpreter (validated on "
              "the whole finite domain), the hand model's correspondence (tested bit-for-bit, not proved), matplotlib artists "
              "returning their data. Pixels are not inspected.")
TECHNIQUE = ("Coq proof (list induction; finite enumeration by vm_compute over a Python-AST term regenerated each run) + "
             "bit-exact model/implementation correspondence on matplotlib artist data by vm_compute")
