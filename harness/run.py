import importlib
import sys

from harness import common


def main():
    pid = sys.argv[1]
    mod = importlib.import_module("harness.props.%s" % pid.lower())
    sys.exit(common.main_check(mod, sys.argv[2:]))


if __name__ == "__main__":
    main()
