(* Umeyama.v - executable model of evo/core/geometry.py umeyama_alignment (definitions only).
   np.linalg.svd is a Section variable (oracle); np.linalg.det is the cofactor formula. *)
From Coq Require Import List Arith Bool ZArith.
From Evo Require Import Num Linalg.
Import ListNotations.
Local Open Scope num_scope.

Section Model.
Context {T : Type} {ops : NumOps T}.
Variable svd : M3 T -> M3 T * V3 T * M3 T.     (* u, d, v  with  cov = u diag(d) v *)
Variable eps : T.                               (* np.finfo(float64).eps *)

Fixpoint vsum (l : list (V3 T)) : V3 T := match l with [] => V0 | v :: r => vadd v (vsum r) end.
Fixpoint msum (l : list (M3 T)) : M3 T := match l with [] => M0 | v :: r => madd v (msum r) end.
Fixpoint tsum (l : list T) : T := match l with [] => n0 | v :: r => v +! tsum r end.
Definition ncount (l : list (V3 T)) : T := nofZ (Z.of_nat (length l)).
Definition mean (l : list (V3 T)) : V3 T := vscale (n1 /! ncount l) (vsum l).
Definition centred (l : list (V3 T)) : list (V3 T) := map (fun v => vsub v (mean l)) l.
(* sigma_x = 1/n * ||x - mean_x||_F^2 *)
Definition sigma2 (l : list (V3 T)) : T := (n1 /! ncount l) *! tsum (map nrm2 (centred l)).
(* cov_xy = 1/n * sum outer(y_i - mean_y, x_i - mean_x) *)
Definition cov_xy (x y : list (V3 T)) : M3 T :=
  mscale (n1 /! ncount x) (msum (map (fun p => outer (snd p) (fst p)) (combine (centred x) (centred y)))).
(* tol = max(eps, d.max() * max(cov.shape) * eps): absolute floor + relative part (as numpy.linalg.matrix_rank);
   d is sorted, so d.max() = d[0] *)
Definition rank_tol (d : V3 T) : T := let r := (vx d *! nofZ 3) *! eps in if eps <?! r then r else eps.
Definition rank_ok (d : V3 T) : bool :=
  let tol := rank_tol d in
  let c := (if tol <?! vx d then 1 else 0) + (if tol <?! vy d then 1 else 0) + (if tol <?! vz d then 1 else 0) in
  negb (Nat.ltb c 2).
Definition kabsch_sign (u v : M3 T) : T := if (det u *! det v) <?! n0 then nopp n1 else n1.

Definition umeyama (with_scale : bool) (x y : list (V3 T)) : option (M3 T * V3 T * T) :=
  if negb (Nat.eqb (length x) (length y)) then None else
  let '(u, d, v) := svd (cov_xy x y) in
  if negb (rank_ok d) then None else
  let s := kabsch_sign u v in
  let r := mm (mm u (diag n1 n1 s)) v in
  let c := if with_scale then (n1 /! sigma2 x) *! (vx d +! vy d +! s *! vz d) else n1 in
  let t := vsub (mean y) (vscale c (mv r (mean x))) in
  Some (r, t, c).

(* applying a similarity to a point, and the sum of squared residuals *)
Definition apply_sim (c : T) (r : M3 T) (t : V3 T) (x : V3 T) : V3 T := vadd (vscale c (mv r x)) t.
Definition resid (c : T) (r : M3 T) (t : V3 T) (x y : list (V3 T)) : T :=
  tsum (map (fun p => nrm2 (vsub (snd p) (apply_sim c r t (fst p)))) (combine x y)).
End Model.
