(* SyncTie.v - translator tie of property C05.
   EvoGen.SyncGen.matching_time_indices_gen is re-translated from evo/core/sync.py on every run (harness/pyast_sync.py:
   numpy 1-D arrays as lists, the best_matches dict as an insertion-ordered association list, sorted() on int pairs as a
   lexicographic sort).  Over the reals - where the invariant of SyncProofs is available - the translated function
   returns exactly the two index lists of the hand-written model Evo.Sync.matching, so every theorem about the model
   (pairs within max_diff and nearest, nothing used twice, increasing time order, completeness) holds of the translated
   source.  The loop itself (array arithmetic, argmin, dict updates) is equal to the model's loop for EVERY number
   system, hence also in the binary64 runs; only the last step uses that the matched indices of the first array are
   pairwise distinct (then sorting pairs lexicographically and sorting them by their first component agree). *)
From Coq Require Import Reals List Arith Bool Lia Permutation Sorting.Sorted.
From Evo Require Import Num NpDsl Sync SyncProofs.
From EvoGen Require Import SyncGen.
Import ListNotations.
Local Open Scope num_scope.

Section Generic.
Context {T : Type} {ops : NumOps T}.

Lemma np_argmin_aux_eq (l : list T) : forall best bv i, np_argmin_aux best bv i l = argmin_aux best bv i l.
Proof. induction l as [|x r IH]; intros; cbn; [reflexivity|]. destruct (x <?! bv); apply IH. Qed.
Lemma np_argmin_eq (l : list T) : np_argmin l = argmin l.
Proof. destruct l; [reflexivity|]. apply np_argmin_aux_eq. Qed.
Lemma np_diffs_eq (s2 : list T) (off x : T) : np_abs_list (np_sub_scalar (np_add_scalar s2 off) x) = diffs s2 off x.
Proof. unfold np_abs_list, np_sub_scalar, np_add_scalar, diffs. rewrite !map_map. reflexivity. Qed.

Notation tbl := (list (nat * (T * nat))).
Lemma dict_lookup_eq k (b : tbl) : py_dict_lookup k b = lookup k b.
Proof. induction b as [|[k' v] r IH]; cbn; [reflexivity|]. destruct (Nat.eqb k' k); [reflexivity|exact IH]. Qed.
Lemma dict_replace_eq k v (b : tbl) : py_dict_replace k v b = replace k v b.
Proof. induction b as [|[k' w] r IH]; cbn; [reflexivity|]. destruct (Nat.eqb k' k); [reflexivity|]. now rewrite IH. Qed.

(* one iteration of the translated loop body is one step of the model *)
Lemma body_eq (s2 : list T) (off maxd : T) (b : tbl) (i1 : nat) (x : T) :
  (let diffs := np_abs_list (np_sub_scalar (np_add_scalar s2 off) x) in
   let index_2 := np_argmin diffs in
   if (np_item diffs index_2 <=?! maxd) &&
      (negb (py_dict_mem index_2 b) || (np_item diffs index_2 <?! fst (py_dict_get (n0, 0) index_2 b)))
   then py_dict_set index_2 (np_item diffs index_2, i1) b else b)
  = upd b i1 (cand s2 off maxd x).
Proof.
  cbv zeta. rewrite np_diffs_eq, np_argmin_eq. unfold cand, np_item.
  set (d := diffs s2 off x). set (j := argmin d). set (dj := nth j d n0).
  destruct (dj <=?! maxd); cbn [andb upd]; [|reflexivity].
  unfold py_dict_mem, py_dict_get, py_dict_set. rewrite dict_lookup_eq.
  destruct (lookup j b) as [[d0 i0]|]; cbn [negb orb fst].
  - destruct (dj <?! d0); [apply dict_replace_eq|reflexivity].
  - reflexivity.
Qed.
Lemma loop_eq (s2 : list T) (off maxd : T) (l : list T) : forall i (b : tbl),
  py_for_enumerate_from i l (fun best_matches index_1 stamp_1 =>
    let diffs := np_abs_list (np_sub_scalar (np_add_scalar s2 off) stamp_1) in
    let index_2 := np_argmin diffs in
    let best_matches := if (np_item diffs index_2 <=?! maxd) &&
        (negb (py_dict_mem index_2 best_matches) || (np_item diffs index_2 <?! fst (py_dict_get (n0, 0) index_2 best_matches)))
      then (let best_matches := py_dict_set index_2 (np_item diffs index_2, index_1) best_matches in best_matches) else best_matches in
    best_matches) b
  = run s2 off maxd l i b.
Proof.
  induction l as [|x r IH]; intros i b; cbn [py_for_enumerate_from run]; [reflexivity|].
  rewrite <- (body_eq s2 off maxd b i x). apply IH.
Qed.
End Generic.

(* sorted() on pairs = the model's sort by first component, when the first components are pairwise distinct *)
Lemma py_insert_eq p l : ~ In (fst p) (map fst l) -> py_insert_pair p l = insert_pair p l.
Proof.
  induction l as [|q r IH]; cbn; intros H; [reflexivity|].
  assert (Hq : fst p <> fst q) by (intros E; apply H; now left).
  assert (Hr : ~ In (fst p) (map fst r)) by (intros I; apply H; now right).
  unfold py_pair_leb.
  destruct (Nat.ltb_spec (fst p) (fst q)) as [L|L].
  - replace (Nat.leb (fst p) (fst q)) with true by (symmetry; apply Nat.leb_le; lia). reflexivity.
  - replace (Nat.eqb (fst p) (fst q)) with false by (symmetry; apply Nat.eqb_neq; exact Hq).
    replace (Nat.leb (fst p) (fst q)) with false by (symmetry; apply Nat.leb_gt; lia).
    now rewrite IH.
Qed.
Lemma py_sorted_eq l : NoDup (map fst l) -> py_sorted_pairs l = isort l.
Proof.
  induction l as [|p r IH]; cbn; intros ND; [reflexivity|].
  inversion ND as [|? ? Hn ND']; subst. rewrite (IH ND'). apply py_insert_eq.
  intros I. apply Hn. eapply Permutation_in; [|exact I]. apply Permutation_map. apply isort_perm.
Qed.

Lemma NoDup_map_key {A B C} (f : A -> B) (g : A -> C) (l : list A) :
  NoDup (map f l) -> (forall a a', In a l -> In a' l -> g a = g a' -> f a = f a') -> NoDup (map g l).
Proof.
  induction l as [|a r IH]; cbn; intros ND H; [constructor|].
  inversion ND as [|? ? Hn ND']; subst. constructor.
  - intros I. apply in_map_iff in I. destruct I as (a' & E & I'). apply Hn.
    rewrite (H a a' (or_introl eq_refl) (or_intror I') (eq_sym E)). now apply in_map.
  - apply IH; [exact ND'|]. intros; apply H; auto.
Qed.

Section Real.
Local Open Scope R_scope.
Variables (s1 s2 : list R) (maxd off : R).

Lemma matched_first_indices_distinct :
  NoDup (map fst (map (fun e : nat * (R * nat) => (snd (snd e), fst e)) (final_table s1 s2 maxd off))).
Proof.
  rewrite map_map. cbn [fst].
  destruct (final_inv s1 s2 maxd off) as (ND & Hc & _).
  apply (NoDup_map_key fst (fun e : nat * (R * nat) => snd (snd e)) _ ND).
  intros [j [d i]] [j' [d' i']] I I' E. cbn in E. subst i'. cbn.
  destruct (Hc j d i I) as [_ C]. destruct (Hc j' d' i I') as [_ C']. congruence.
Qed.

(* ---- the translated source returns the model's pairs ---- *)
Theorem matching_time_indices_gen_is_model :
  matching_time_indices_gen s1 s2 maxd off = (map fst (matching s1 s2 maxd off), map snd (matching s1 s2 maxd off)).
Proof.
  unfold matching_time_indices_gen. cbv zeta. unfold py_for_enumerate, py_dict_empty, py_dict_items.
  rewrite (loop_eq s2 off maxd s1 0 []).
  unfold matching. fold (final_table s1 s2 maxd off).
  rewrite (py_sorted_eq _ matched_first_indices_distinct). reflexivity.
Qed.
End Real.
