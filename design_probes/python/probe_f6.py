import numpy as np, itertools
from evo.core import filters, lie_algebra as lie
Rz=np.array([[0,-1,0],[1,0,0],[0,0,1.0]])
Rx=np.array([[1,0,0],[0,0,-1],[0,1,0.0]])
def mp(k,R=Rz): return np.linalg.matrix_power(R.astype(int),k%4).astype(float)
print([lie.so3_log_angle(mp(k)).hex() for k in range(4)], np.deg2rad(90).hex(), np.deg2rad(180).hex(), (np.pi).hex())
print([lie.so3_log_angle(mp(k,Rx)).hex() for k in range(4)])
# 120deg rotation permutation matrix
P=np.array([[0,0,1],[1,0,0],[0,1,0.0]]); print(lie.so3_log_angle(P).hex(), np.deg2rad(120).hex())
bad=0;tot=0
for n in range(2,6):
  for rs in itertools.product([0,1,2,3],repeat=n-1):
    cum=np.cumsum([0]+list(rs))
    Ps=[lie.se3(mp(int(c)),np.array([k*1.0,0,0])) for k,c in enumerate(cum)]
    for delta in [90,180]:
        tot+=1
        pairs=filters.filter_pairs_by_angle(Ps,delta,0.0,True,False)
        ca=[min(r,4-r)*90 for r in rs]
        exp=[];acc=0;start=0
        for k,a in enumerate(ca):
            acc+=a
            if acc>=delta: exp.append((start,k+1)); acc=0; start=k+1
        if pairs!=exp: bad+=1; print("BAD angle consec", rs, delta, pairs, exp) if bad<6 else None
        ap=filters.filter_pairs_by_angle(Ps,delta,delta*0.1,True,True)
        def rel(i,j):
            d=(sum(rs[i:j]))%4; return min(d,4-d)*90
        exp=[(i,j) for i in range(n-1) for j in range(i+1,n) if delta*0.9<=rel(i,j)<=delta*1.1]
        if ap!=exp: bad+=1; print("BAD angle all", rs, delta, ap, exp) if bad<6 else None
print("angle tot bad",tot,bad)
