(* C14 - plane projection. Proofs in Evo.TrajProofs (section Proj). *)
From Coq Require Import Reals List.
From Evo Require Import Num Linalg LinalgR Traj TrajProofs.
Local Open Scope R_scope.

Theorem C14_orientation_is_rotation_about_plane_normal : forall (eps4 : R) pl (m : M3R), exists c s,
  c * c + s * s = 1 /\ @proj_rot R _ eps4 pl m = match pl with XY => rotz c s | XZ => roty c s | YZ => rotx c s end.
Proof. exact proj_rot_planar. Qed.
Print Assumptions C14_orientation_is_rotation_about_plane_normal.
Theorem C14_projected_pose_is_rigid : forall (eps4 : R) pl (p : PoseR), SE3 (@proj_pose R _ eps4 pl p).
Proof. exact proj_pose_SE3. Qed.
Print Assumptions C14_projected_pose_is_rigid.
Theorem C14_positions_in_plane_coordinates_kept : forall pl (v : V3R),
  match pl with
  | XY => vz (@proj_pos R _ pl v) = 0 /\ vx (proj_pos pl v) = vx v /\ vy (proj_pos pl v) = vy v
  | XZ => vy (@proj_pos R _ pl v) = 0 /\ vx (proj_pos pl v) = vx v /\ vz (proj_pos pl v) = vz v
  | YZ => vx (@proj_pos R _ pl v) = 0 /\ vy (proj_pos pl v) = vy v /\ vz (proj_pos pl v) = vz v
  end.
Proof. exact proj_pos_spec. Qed.
Print Assumptions C14_positions_in_plane_coordinates_kept.
Theorem C14_xy_leaves_planar_poses_unchanged : forall eps4 : R, 0 <= eps4 < 1 -> forall c s,
  c * c + s * s = 1 -> @proj_rot R _ eps4 XY (rotz c s) = rotz c s.
Proof. exact proj_xy_fixes_planar. Qed.
Print Assumptions C14_xy_leaves_planar_poses_unchanged.
Theorem C14_yz_leaves_planar_poses_unchanged : forall eps4 : R, 0 <= eps4 < 1 -> forall c s,
  c * c + s * s = 1 -> @proj_rot R _ eps4 YZ (rotx c s) = rotx c s.
Proof. exact proj_yz_fixes_planar. Qed.
Print Assumptions C14_yz_leaves_planar_poses_unchanged.
(* XZ: FALSE of the faithful model for headings beyond +-90 degrees (finding F3, known finding) *)
Theorem C14_xz_planar_heading_cosine_replaced_by_abs : forall eps4 c s : R,
  c * c + s * s = 1 -> @proj_rot R _ eps4 XZ (roty c s) = roty (Rabs c) s.
Proof. exact proj_xz_planar. Qed.
Print Assumptions C14_xz_planar_heading_cosine_replaced_by_abs.
Theorem C14_xz_leaves_planar_poses_unchanged_partial : forall eps4 c s : R,
  c * c + s * s = 1 -> 0 <= c -> @proj_rot R _ eps4 XZ (roty c s) = roty c s.
Proof. exact proj_xz_fixes_planar_partial. Qed.
Print Assumptions C14_xz_leaves_planar_poses_unchanged_partial.
Theorem C14_xz_leaves_planar_poses_unchanged_refuted : forall eps4 : R, exists c s,
  c * c + s * s = 1 /\ @proj_rot R _ eps4 XZ (roty c s) <> roty c s.
Proof. exact proj_xz_fixes_planar_refuted. Qed.
Print Assumptions C14_xz_leaves_planar_poses_unchanged_refuted.
(* true projection: the pose map applied twice is the pose map applied once, on every pose and all three planes
   (the XZ defect F3 is about planar INPUT poses with negative heading cosine; the OUTPUT of the map is always fixed by it) *)
Theorem C14_pose_map_is_idempotent : forall eps4 : R, 0 <= eps4 < 1 -> forall pl (p : PoseR),
  @proj_pose R _ eps4 pl (@proj_pose R _ eps4 pl p) = @proj_pose R _ eps4 pl p.
Proof. exact proj_pose_idempotent. Qed.
Print Assumptions C14_pose_map_is_idempotent.
(* the operation on the object: timestamps, count and order stay *)
Theorem C14_count_order_timestamps_unchanged : forall qfm cbrt (eps4 : R) (s : @traj R) pl s',
  @step R _ qfm cbrt eps4 s (Project pl) = Some s' ->
  t_stamps s' = t_stamps s /\ @poses_of R _ eps4 s' = map (@proj_pose R _ eps4 pl) (@poses_of R _ eps4 s) /\
  length (@poses_of R _ eps4 s') = length (@poses_of R _ eps4 s).
Proof. exact project_keeps_stamps_count_order. Qed.
Print Assumptions C14_count_order_timestamps_unchanged.
(* a second projection of the same object is refused, whatever happened to the object in between *)
Theorem C14_second_projection_refused : forall qfm cbrt (eps4 : R) (s : @traj R) pl s1 ops_ s2 pl',
  @step R _ qfm cbrt eps4 s (Project pl) = Some s1 -> @run R _ qfm cbrt eps4 s1 ops_ = Some s2 ->
  @step R _ qfm cbrt eps4 s2 (Project pl') = None.
Proof. exact second_projection_refused. Qed.
Print Assumptions C14_second_projection_refused.

(* ---- positions under projection (added after every property had a check): the position map is a contraction - no step
   gets longer, the path length never grows - and fixes every position that already lies in the plane ---- *)
Theorem C14_projection_never_lengthens_a_step : forall pl (a b : V3R),
  norm (vsub (@proj_pos R _ pl a) (proj_pos pl b)) <= norm (vsub a b).
Proof. exact proj_pos_contraction. Qed.
Print Assumptions C14_projection_never_lengthens_a_step.
Theorem C14_projection_never_lengthens_the_path : forall pl (xs : list V3R),
  Forall2 Rle (@step_lengths R _ (map (proj_pos pl) xs)) (@step_lengths R _ xs) /\
  @path_length R _ (map (proj_pos pl) xs) <= @path_length R _ xs.
Proof. intros pl xs. split; [apply step_lengths_projection_le|apply path_length_projection_le]. Qed.
Print Assumptions C14_projection_never_lengthens_the_path.
Theorem C14_positions_in_the_plane_unchanged : forall pl (v : V3R),
  match pl with XY => vz v = 0 | XZ => vy v = 0 | YZ => vx v = 0 end -> @proj_pos R _ pl v = v.
Proof. exact proj_pos_fixes_in_plane. Qed.
Print Assumptions C14_positions_in_the_plane_unchanged.
