(* TrajCli.v - the evo_traj processing tail (loaded transformation, optional inversion, projection) as
   operations of the Traj state machine, and the two-sided inverse law for loaded SE(3)/Sim(3) matrices (C15). *)
From Coq Require Import Reals Lra List Bool.
From Evo Require Import Num Linalg LinalgR Lie LieProofs Traj TrajProofs.
Import ListNotations.

Section Defs.
Context {T : Type} {ops : NumOps T}.
(* --invert_transform: lie.sim3_inverse(transform), scale = cbrt(det) supplied by [cbrt] *)
Definition invert_loaded (cbrt : T -> T) (A : Pose T) : Pose T := sim3_inverse_with (cbrt (det (prot A))) A.
(* ops applied to every trajectory after alignment: transform (left | right, propagate) then projection *)
Definition tail_ops (tf : option (Pose T * bool * bool * bool)) (pl : option Plane) : list (@op T) :=
  (match tf with Some (A, rgt, prop, sim) => [Transform A rgt (rgt && prop) sim] | None => [] end) ++
  (match pl with Some p => [Project p] | None => [] end).
End Defs.

Local Open Scope R_scope.
(* the inverted transformation is the true inverse of every loaded SE(3) (s = 1) or Sim(3) matrix *)
Theorem invert_loaded_two_sided (cbrt : R -> R) (r : M3R) (t : V3R) (s : R) :
  (forall x, cbrt x * cbrt x * cbrt x = x) -> SO3 r -> 0 < s ->
  pmul (invert_loaded cbrt (sim3 r t s)) (sim3 r t s) = pI /\ pmul (sim3 r t s) (invert_loaded cbrt (sim3 r t s)) = pI.
Proof.
  intros Hc Hr Hs. unfold invert_loaded.
  assert (E : cbrt (det (prot (sim3 r t s))) = s) by (apply (sim3_scale_recovered r t s _ Hr); apply Hc).
  rewrite E. destruct Hr as [O _]. assert (Hn : s <> 0) by (intros Z; rewrite Z in Hs; exact (Rlt_irrefl 0 Hs)).
  split; [apply sim3_inverse_left|apply sim3_inverse_right]; assumption.
Qed.
(* the old code path (se3_inverse on a Sim(3) matrix) is NOT an inverse as soon as s <> 1: regression witness F4 *)
Theorem se3_inverse_on_sim3_refuted : exists (r : M3R) (t : V3R) (s : R), SO3 r /\ 0 < s /\
  pmul (se3_inverse (sim3 r t s)) (sim3 r t s) <> pI.
Proof.
  exists I3, V0, 2. split; [apply SO3_I|]. split; [lra|]. intros E.
  apply (f_equal (fun p => m00 (prot p))) in E. revert E. unfold se3_inverse. lin_unfold. lra.
Qed.
(* without processing options nothing is applied; with them: transform first, projection last *)
Theorem tail_ops_none : @tail_ops R None None = [].
Proof. reflexivity. Qed.
Theorem tail_ops_order A rgt prop sim pl :
  @tail_ops R (Some (A, rgt, prop, sim)) (Some pl) = [Transform A rgt (rgt && prop) sim; Project pl].
Proof. reflexivity. Qed.


(* what the inverted matrix is: the similarity with transposed rotation, reciprocal scale and back-mapped translation *)
Theorem invert_loaded_form (cbrt : R -> R) (r : M3R) (t : V3R) (s : R) :
  (forall x, cbrt x * cbrt x * cbrt x = x) -> SO3 r -> 0 < s ->
  invert_loaded cbrt (sim3 r t s) = sim3 (mt r) (vopp (mv (mt r) (vscale (1 / s) t))) (1 / s).
Proof.
  intros Hc Hr Hs. unfold invert_loaded.
  assert (E : cbrt (det (prot (sim3 r t s))) = s) by (apply (sim3_scale_recovered r t s _ Hr); apply Hc).
  rewrite E. apply sim3_inverse_is_sim3. lra.
Qed.
(* inverting twice gives the loaded matrix back *)
Theorem invert_loaded_involutive (cbrt : R -> R) (r : M3R) (t : V3R) (s : R) :
  (forall x, cbrt x * cbrt x * cbrt x = x) -> SO3 r -> 0 < s ->
  invert_loaded cbrt (invert_loaded cbrt (sim3 r t s)) = sim3 r t s.
Proof.
  intros Hc Hr Hs. rewrite (invert_loaded_form cbrt r t s Hc Hr Hs).
  assert (Hs' : 0 < 1 / s) by (apply Rdiv_lt_0_compat; lra).
  rewrite (invert_loaded_form cbrt (mt r) _ (1 / s) Hc (SO3_mt r Hr) Hs').
  destruct Hr as [[_ O] _]. rewrite mt_mt.
  replace (1 / (1 / s)) with s by (field; lra). f_equal.
  rewrite vscale_vopp, mv_vopp, mv_vscale, <- mv_mm, O, mv_I, vscale_vscale.
  replace (s * (1 / s)) with 1 by (field; lra). rewrite vscale_1. destruct t; v3eq.
Qed.
(* applying the loaded matrix and then its inversion (or the other way round) on the same side restores every pose *)
Theorem invert_loaded_undoes (cbrt : R -> R) (r : M3R) (t : V3R) (s : R) (P : list PoseR) :
  (forall x, cbrt x * cbrt x * cbrt x = x) -> SO3 r -> 0 < s ->
  let A := sim3 r t s in let Ai := invert_loaded cbrt A in
  transform_poses Ai false false (transform_poses A false false P) = P /\
  transform_poses A false false (transform_poses Ai false false P) = P /\
  transform_poses Ai true false (transform_poses A true false P) = P /\
  transform_poses A true false (transform_poses Ai true false P) = P.
Proof.
  intros Hc Hr Hs A Ai. destruct (invert_loaded_two_sided cbrt r t s Hc Hr Hs) as [L Rr]. fold A in L, Rr. fold Ai in L, Rr.
  rewrite !effect_left, !effect_right, !map_map. repeat split.
  - rewrite <- (map_id P) at 2. apply map_ext. intros p. now rewrite <- pmul_assoc, L, pmul_I_l.
  - rewrite <- (map_id P) at 2. apply map_ext. intros p. now rewrite <- pmul_assoc, Rr, pmul_I_l.
  - rewrite <- (map_id P) at 2. apply map_ext. intros p. now rewrite pmul_assoc, Rr, pmul_I_r.
  - rewrite <- (map_id P) at 2. apply map_ext. intros p. now rewrite pmul_assoc, L, pmul_I_r.
Qed.
(* for a loaded SE(3) matrix (scale 1) the inversion is se3_inverse *)
Theorem invert_loaded_se3 (cbrt : R -> R) (r : M3R) (t : V3R) :
  (forall x, cbrt x * cbrt x * cbrt x = x) -> SO3 r -> invert_loaded cbrt (sim3 r t 1) = se3_inverse (mkPose r t).
Proof.
  intros Hc Hr. unfold invert_loaded.
  assert (E : cbrt (det (prot (sim3 r t 1))) = 1) by (apply (sim3_scale_recovered r t 1 _ Hr); apply Hc).
  rewrite E. apply sim3_inverse_unit_scale_is_se3_inverse.
Qed.
