import numpy as np, copy, io, pickle, tempfile, os
import matplotlib; matplotlib.use("Agg"); import matplotlib.pyplot as plt
from evo.core import lie_algebra as lie, metrics, sync, geometry, filters, result, trajectory
from evo.core.metrics import PoseRelation as PR, Unit
from evo.core.trajectory import PoseTrajectory3D, PosePath3D, Plane
from evo.tools import file_interface as fi, pandas_bridge as pb, plot
from scipy.spatial.transform import Rotation
rng=np.random.default_rng(4)
def rnd(n,mode):
    poses=[lie.se3(Rotation.random(random_state=int(rng.integers(1<<30))).as_matrix(),rng.normal(size=3)*3) for _ in range(n)]
    ts=np.cumsum(rng.random(n)+0.05)
    if mode=="mat": return PoseTrajectory3D(poses_se3=poses,timestamps=ts)
    import evo.core.transformations as tr
    return PoseTrajectory3D(np.array([p[:3,3] for p in poses]),np.array([tr.quaternion_from_matrix(p) for p in poses]),ts)
def snap(o):
    d={}
    for k,v in o.__dict__.items():
        if isinstance(v,np.ndarray): d[k]=v.tobytes()
        elif isinstance(v,list) and v and isinstance(v[0],np.ndarray): d[k]=[x.tobytes() for x in v]
        else: d[k]=repr(v)
    return d
def views(o): return (o.positions_xyz.tobytes(), o.orientations_quat_wxyz.tobytes(), [p.tobytes() for p in o.poses_se3], o.timestamps.tobytes())
viol=[]
def run(name,fn,*objs):
    before=[views(copy.deepcopy(o)) for o in objs]
    out=fn(*objs)
    after=[views(o) for o in objs]
    if before!=after: viol.append(name)
    return out
for mode in ("mat","pq"):
    a,b=rnd(12,mode),rnd(12,mode)
    for rel in PR:
        run(f"APE {rel.name}",lambda x,y:(metrics.APE(rel).process_data((x,y)) if rel!=PR.point_distance_error_ratio else None),a,b)
        run(f"RPE {rel.name}",lambda x,y:metrics.RPE(rel,1,Unit.frames).process_data((x,y)),a,b)
    run("umeyama",lambda x,y:geometry.umeyama_alignment(x.positions_xyz.T,y.positions_xyz.T,True),a,b)
    c=copy.deepcopy(a); run("align ref",lambda ref:c.align(ref,True),b)
    c=copy.deepcopy(a); run("align_origin ref",lambda ref:c.align_origin(ref),b)
    run("associate",lambda x,y:sync.associate_trajectories(x,y,0.5),a,b)
    run("mti",lambda x,y:sync.matching_time_indices(x.timestamps,y.timestamps,0.5,0.1),a,b)
    run("id_pairs",lambda x:[metrics.id_pairs_from_delta(x.poses_se3,d,u,0.5,ap) for d,u in ((2,Unit.frames),(3.0,Unit.meters),(50.,Unit.degrees)) for ap in (0,1)],a)
    run("filter_by_motion",lambda x:filters.filter_by_motion(x.poses_se3,1.0,0.5),a)
    run("merge",lambda x,y:trajectory.merge([x,y]),a,b)
    run("to_df",lambda x:pb.df_to_trajectory(pb.trajectory_to_df(x)),a)
    run("stats_df",lambda x:pb.trajectory_stats_to_df(x),a)
    run("write tum",lambda x:fi.write_tum_trajectory_file(io.StringIO(),x),a)
    run("write kitti",lambda x:fi.write_kitti_poses_file(io.StringIO(),x),a)
    run("infos",lambda x:(x.get_infos(),x.get_statistics(),x.check(),str(x),x.speeds,x.distances,x.path_length),a)
    run("splits",lambda x:(x.split_time_gaps(0.5),x.split_distance_gaps(2.0),x.split_speed_outliers(3.0)),a)
    fig=plt.figure(); ax=plot.prepare_axis(fig,plot.PlotMode.xyz)
    run("plot traj",lambda x:(plot.traj(ax,plot.PlotMode.xyz,x),plot.draw_coordinate_axes(ax,x,plot.PlotMode.xyz),plot.traj_colormap(ax,x,np.arange(12.),plot.PlotMode.xyz,0,11,fig=fig)),a)
    run("plot corr",lambda x,y:plot.draw_correspondence_edges(ax,x,y,plot.PlotMode.xyz),a,b)
    f2,axarr=plt.subplots(3); run("plot xyz rpy",lambda x:(plot.traj_xyz(axarr,x),plot.traj_rpy(axarr,x),plot.speeds(plt.figure().gca(),x)),a); plt.close("all")
    # derived independence: associate then mutate outputs
    x,y=sync.associate_trajectories(a,b,10.0)
    before=views(copy.deepcopy(a)),views(copy.deepcopy(b))
    x.transform(lie.se3(np.eye(3),np.ones(3))); y.scale(2.0); x.project(Plane.XY); y.reduce_to_ids([0])
    if (views(a),views(b))!=before: viol.append("associate outputs alias inputs")
    m=trajectory.merge([a,b]); before=views(copy.deepcopy(a)),views(copy.deepcopy(b)); m.project(Plane.XZ); m.scale(3)
    if (views(a),views(b))!=before: viol.append("merge output aliases")
    cp=copy.deepcopy(a); before=views(copy.deepcopy(a)); cp.project(Plane.YZ); cp.transform(lie.se3())
    if views(a)!=before: viol.append("deepcopy aliases")
    # reduce_to_ids then project vs an earlier shallow holder of pose list
    held=a.poses_se3; heldbytes=[p.tobytes() for p in held]; d=copy.deepcopy(a); 
    parts=a.split_distance_gaps(0.0) if False else None
# result merge inputs unchanged
r1=result.Result(); r1.add_stats({"a":1.0}); r1.add_np_array("e",np.arange(3.)); r2=copy.deepcopy(r1); r2.stats["a"]=3.0
s=(copy.deepcopy(r1.__dict__),copy.deepcopy(r2.__dict__)); m=result.merge_results([r1,r2]); m.np_arrays["e"]*=0; m.stats["a"]=9
print("merge_results inputs same:", r1.stats==s[0]["stats"] and np.array_equal(r1.np_arrays["e"],s[0]["np_arrays"]["e"]) and r2.stats==s[1]["stats"])
# get_result shares error array with metric
ap=metrics.APE(); ap.error=np.array([1.,2.]); ap.unit=Unit.meters; res=ap.get_result(); ap.change_unit(Unit.millimeters); print("result array changed by later change_unit on metric:", res.np_arrays["error_array"])
print("violations:",sorted(set(viol)))
