#!/bin/bash
# seedrun.sh <PROPERTY> <patch.diff> [demo.py] : apply a seeded change in a scratch worktree of /repo,
# run the baseline tests, the demonstration (if given) and the property's quick check against it, then clean up.
# Never touches /repo's working tree. Not run concurrently with other checks of translator-tied properties.
set -u
P="$1"; PATCH="$(readlink -f "$2")"; DEMO="${3:-}"
WT="$(mktemp -d /tmp/seedrun_XXXX)"; rmdir "$WT"
git -C /repo worktree add -q "$WT" HEAD || exit 2
cleanup() { git -C /repo worktree remove --force "$WT" 2>/dev/null; rm -rf "$WT"; }
trap cleanup EXIT
if [ -n "$DEMO" ]; then
  (cd "$WT" && HOME=$(mktemp -d) PYTHONPATH="$WT" /venv/bin/python -W ignore "$DEMO" >/dev/null 2>&1); echo "demo_without_change_exit=$?"
fi
git -C "$WT" apply "$PATCH" || { echo "patch does not apply"; exit 2; }
(cd "$WT" && HOME=$(mktemp -d) /venv/bin/python -m pytest -q -p no:cacheprovider --timeout=900 --continue-on-collection-errors 2>&1 | tail -1)
if [ -n "$DEMO" ]; then
  (cd "$WT" && HOME=$(mktemp -d) PYTHONPATH="$WT" /venv/bin/python -W ignore "$DEMO" >/dev/null 2>&1); echo "demo_with_change_exit=$?"
fi
cd /verif && EVO_REPO="$WT" ./check "$P" --tier "${TIER:-quick}" 2>&1 | grep -v Initialized | grep "VIOLATION\|^OK\|HARNESS\|KNOWN" | cut -c1-220 | head -5
echo "check_exit=${PIPESTATUS[0]}"
git -C /verif checkout -- coq/generated evidence   # restore what the mutated run rewrote
